"""C13 – exception reports never fail, mirror the traceback, hide values unless diagnose (DESIGN §4 C13).

Generated Python programs raise through generated call chains; the exception is logged through the
three entry points with all eight backtrace x diagnose x colorize handlers attached at once and
under sys.tracebacklimit in {unset, 0, 1, 3}.  Direct oracles judge the emitted text against
Python's own `traceback` module and the live exception/traceback objects; the correspondence
stream parses the text back into pieces and compares them with the Lean model `Exc.fmt`.
"""
import io
import json
import keyword
import linecache
import os
import re
import sys
import tokenize
import traceback

from harness import core
from harness.core import enc, dec

PROP = "C13"
LEAN_TARGETS = ["LoguruModel.Props.C13"]
AUDIT_FILE = "LoguruModel/Audit/C13.lean"
DRIVER = "C13"
RULE = ("one case = (generated program, entry point, sys.tracebacklimit) logged through 8 handlers "
        "(backtrace x diagnose x colorize), entry points opt(exception=) / catch decorator / catch context manager / ONE "
        "catch object reused over 2-5 decorator and context-manager uses (last use judged) / 2-3 stacked catch decorators "
        "(inner, middle or outer catching) / decorated callables invoked by loguru (lazy argument, patcher, onerror) / the "
        "exception first passing through 1-3 catch(reraise=True) wrappers / opt(exception=True) / logger.exception() / an explicit "
        "(type, value, traceback) tuple whose traceback starts one frame further in / the report produced by a COPY of the logger "
        "(copy.deepcopy, pickle round trip, both, deep copy of a bound logger; handlers of all 8 modes must keep their options); "
        "sys.tracebacklimit in {unset, 0, 1, 3, 2, -1, 5, "
        "1000, -7, 4}; sinks attached as callables or as stream objects with encoding ascii / None / unknown codec / "
        "latin-1 / utf-8 (box-drawing or ASCII value arrows); source lines with attribute access on objects whose "
        "properties raise and with keyword arguments; plus unit-level streams: synthetic stacks given to "
        "_extract_frames itself (hidden-file patterns x callers x limits x modes, with registered source lines and frame "
        "variables), the closing-line grid (exception class x __str__ behaviour x raised/source/diagnose), list slices, "
        "_format_list on runs of identical frames (vs traceback.StackSummary), enqueue=True handlers with exception objects "
        "whose pickling misbehaves; "
        "programs are built from call/raise/from/implicit-context/from-None/"
        "re-raise/notes/groups/groups-in-handlers/except* handlers/cycles/never-raised causes/SyntaxError/recursion/bad __str__/"
        "customised __eq__ __hash__ __len__ (unhashable dataclass, raising hash/eq, eq-always-True, value-equal "
        "instances meeting in one chain, falsy) "
        "pieces with secret, huge-repr and raising-repr objects in frame variables; non-trivial = the exception "
        "graph has >= 2 exceptions or a group or a repeated frame; distinct by (program seed, entry, limit)")
TRUSTED = [
    "Py/Traceback.lean (chain ordering of CPython 3.12 TracebackException, group-free part) is modelled; "
    "compared with traceback.format_exception on every generated group-free graph",
    "the text of traceback.format_exception_only, linecache and the tokenizer are Python's (opaque `excOnly` piece)",
    "value-arrow column layout, ANSI colouring and syntax highlighting are abstracted (stripped before parse-back)",
    "Py/Slice.lean (list slicing with CPython's index clamping) is modelled; compared with real list slicing on a grid",
    "the synthetic traceback / frame / code objects of the `synth` stream stand for CPython's (same attributes)",
]
ASSUMPTIONS = ["CPython 3.12 traceback semantics", "repr/str/bool of user objects are deterministic oracles",
               "exception group member tuples are acyclic (immutable `exceptions`)"]

SECRET = "S3CR3T"
ANSI = re.compile(r"\x1b\[[0-9;]*m")
MODES = [(b, d, c) for b in (False, True) for d in (False, True) for c in (False, True)]
LIMITS = [None, 0, 1, 3]
MORE_LIMITS = [2, -1, 5, 1000, -7, 4]          # rotated in: both tiers see every value
ENTRIES = ["opt", "decorator", "context"]
CAUSE_MSG = "The above exception was the direct cause of the following exception:"
CONTEXT_MSG = "During handling of the above exception, another exception occurred:"
MODEL_BUDGET = 600
# texts sent to the model are cut to WIRE characters: with max_length = 128 `truncate` reads at most the first 129
# characters of a repr / placeholder (is it longer than 128? its first 125), so the answer is the same
WIRE = 400
F12_KEY = "F12-deep-chain-recursion"
GRP_SHARED_KEY = "C13-group-member-reached-by-chain"
GRP_WIDE_KEY = "C13-wide-group-ruler-and-plural"


def loguru_file():
    import loguru._logger as lg
    return lg.Logger.catch.__code__.co_filename


# ----------------------------------------------------------------------------- objects in frame variables
class Tagger:
    def __init__(self):
        self.n = 0

    def __call__(self):
        self.n += 1
        return "m#%d" % self.n

    def __repr__(self):
        return "<tagger>"


class Huge:
    def __repr__(self):
        return "<Huge " + (SECRET + "-huge ") * 400 + ">"


class BadRepr:
    def __repr__(self):
        raise RuntimeError(SECRET + " raised by repr")


class ReprErr(Exception):
    pass


class BadRepr2:
    def __repr__(self):
        raise ReprErr(SECRET)


class Multi:
    def __repr__(self):
        return "<multi " + SECRET + "\nsecond line " + SECRET + ">"


BadLongName = type("B" + "x" * 200, (), {"__repr__": lambda self: 1 / 0})
MARK = "\u00a4"     # occurs only inside the reprs below: counts how much of a value reaches a report


class Shaped:
    """repr = `lines` lines of `width` marker characters joined by `sep` (matrix / table / document objects)"""

    def __init__(self, lines, width, sep="\n", head=""):
        self.text = head + sep.join([MARK * width] * lines)

    def __repr__(self):
        return self.text


class Ctl:
    """repr with control characters and separators other than \\n"""

    def __init__(self, k):
        self.text = ("<ctl " + SECRET + " a\rb\tc\x0bd\x0ce\x00f \x1b[31mred\x1b[0m g\u2028h\x85i\x1cj>") * k

    def __repr__(self):
        return self.text


class Holder:
    """frame variable whose attributes appear in source lines: `v4.x` (instance attribute), `v4.boom` (a property
    that raises) – the report must resolve them statically, never by running the property or `__getattr__`"""
    touched = 0

    def __init__(self, x):
        self.x = x

    @property
    def boom(self):
        Holder.touched += 1
        raise RuntimeError(SECRET + " property evaluated")

    def __getattr__(self, name):
        Holder.touched += 1
        raise AttributeError(name)

    def __repr__(self):
        return "<Holder " + SECRET + ">"


def make_pool():
    return [SECRET + "-alpha", SECRET + "-" + "b" * 40, 12345, None, [SECRET, 1, 2], {"k": SECRET + "-d"},
            Huge(), BadRepr(), BadRepr2(), Multi(), BadLongName(), SECRET[:6] + "q" * 120, SECRET + "r" * 121,
            SECRET + "s" * 119, (SECRET,), 3.5, b"" + SECRET.encode(), True,
            Shaped(200, 30), Shaped(2000, 1), Shaped(500, 3, head=MARK * 300 + "\n"), Shaped(3, 20), Shaped(4, 31),
            Shaped(2, 64), Shaped(60, 200), Shaped(40, 5, sep="\r\n"), Shaped(300, 2, sep="\r"), Ctl(1), Ctl(9),
            Shaped(1, 5, head="\n\n"), Shaped(130, 0)]


NPOOL = len(make_pool())


# ----------------------------------------------------------------------------- program generator
CLASS_KINDS = [("plain", "Exception", 40), ("value", "ValueError", 12), ("key", "KeyError", 8),
               ("assert", "AssertionError", 10), ("badstr", "Exception", 8), ("badstr_assert", "AssertionError", 6),
               ("badrepr", "Exception", 5), ("syntax", "SyntaxError", 5), ("oserr", "OSError", 6),
               # customised identity: the formatter must key its cycle detection on object identity and must not
               # hash or compare the exception objects ("whatever the exception object is")
               ("unhashable_dc", "Exception", 5), ("unhashable_eq", "Exception", 4), ("hashraise", "Exception", 4),
               ("eqtrue", "Exception", 4), ("eqraise", "Exception", 3), ("valueeq", "Exception", 6),
               ("frozen_dc", "Exception", 4), ("falsy", "Exception", 3)]
ODD_KINDS = ("unhashable_dc", "unhashable_eq", "hashraise", "eqtrue", "eqraise", "valueeq", "frozen_dc", "falsy")
ODD_BODY = {
    "unhashable_eq": "    def __eq__(self, other):\n        return type(other) is type(self) and other.args == self.args\n"
                     "    __hash__ = None\n",
    "hashraise": "    def __hash__(self):\n        raise RuntimeError('hash failed')\n",
    "eqtrue": "    def __eq__(self, other):\n        return True\n    def __hash__(self):\n        return 7\n",
    "eqraise": "    def __eq__(self, other):\n        raise RuntimeError('eq failed')\n    def __hash__(self):\n        return 7\n",
    "valueeq": "    def __eq__(self, other):\n        return type(other) is type(self) and other.args == self.args\n"
               "    def __hash__(self):\n        return hash((type(self).__name__, self.args))\n",
    "falsy": "    def __len__(self):\n        return 0\n",
}


class Prog:
    def __init__(self, rng, max_funcs=14):
        self.rng = rng
        self.classes, self.funcs = [], []
        self.nf = 0
        self.max_funcs = max_funcs
        self.features = set()
        self.odd = []          # classes with customised __eq__/__hash__/__len__, reused so that equal instances meet

    def new_class(self, kind=None, group=False):
        r = self.rng
        n = len(self.classes)
        if group:
            name = "Grp%d" % n
            self.classes.append("class %s(ExceptionGroup):\n    pass\n" % name)
            return name, "group"
        if kind is None:
            tot = sum(w for _, _, w in CLASS_KINDS)
            x = r.below(tot)
            for k, _b, w in CLASS_KINDS:
                if x < w:
                    kind = k
                    break
                x -= w
        base = dict((k, b) for k, b, _ in CLASS_KINDS)[kind]
        name = "Err%d" % n
        src = "class %s(%s):\n" % (name, base)
        if kind in ("badstr", "badstr_assert"):
            src += "    def __str__(self):\n        raise RuntimeError('str failed')\n"
        elif kind == "badrepr":
            src += "    def __repr__(self):\n        raise RuntimeError('repr failed')\n"
        elif kind in ("unhashable_dc", "frozen_dc"):
            # the everyday case: a dataclass exception (eq=True -> __hash__ None; frozen -> value hash)
            src = "@dataclass%s\n" % ("(frozen=True)" if kind == "frozen_dc" else "") + src + "    msg: str\n"
        elif kind in ODD_BODY:
            src += ODD_BODY[kind]
        else:
            src += "    pass\n"
        self.classes.append(src)
        self.features.add("class:" + kind)
        return name, kind

    def new_exc(self, kind=None):
        if kind is None and self.odd and self.rng.chance(30):
            # another instance of an already used class with the same arguments: equal but distinct objects
            return "%s('same')" % self.rng.choice(self.odd)
        name, kind = self.new_class(kind)
        if kind in ODD_KINDS:
            self.odd.append(name)
            return "%s('same')" % name if self.rng.chance(60) else "%s(M())" % name
        if kind == "syntax":
            return "%s(M(), ('bad_source.py', 3, 5, 'x = = 1\\n', 3, 8))" % name
        if kind in ("assert", "badstr_assert") and self.rng.chance(60):
            return "%s()" % name
        return "%s(M())" % name

    def locals_(self):
        r = self.rng
        out = ["    v1 = POOL[%d]" % r.below(NPOOL), "    v2 = POOL[%d]" % r.below(NPOOL)]
        if r.chance(30):
            out.append("    v3 = [v1, GSECRET]")
        self.has_v4 = r.chance(25)
        if self.has_v4:
            out.append("    v4 = Holder(v2)")
            self.features.add("attribute_in_source")
        return out

    def arg(self):
        if getattr(self, "has_v4", False) and self.rng.chance(50):
            return self.rng.choice(["v4.x", "(v1 if True else v4.boom)", "v4.x if v4 else v4.boom.deeper", "v4"])
        return self.rng.choice(["v1", "v2", "GSECRET", "a", "v1", "v2"])

    def call(self, g):
        """a call of the generated function g (sometimes with a keyword argument, which the report must not annotate)"""
        if self.rng.chance(15):
            self.features.add("keyword_argument")
            return "%s(a=%s)" % (g, self.arg())
        return "%s(%s)" % (g, self.arg())

    def make(self, depth):
        """emit a function that raises when called; returns its name"""
        r = self.rng
        name = "f%d" % self.nf
        self.nf += 1
        kinds = ["leaf"] if depth <= 0 or self.nf >= self.max_funcs else \
            ["leaf"] * 2 + ["call"] * 5 + ["from"] * 3 + ["ctx"] * 3 + ["none"] * 2 + ["reraise"] * 2 + ["note"] * 2 + \
            ["group"] * 3 + ["tbnone"] + ["cycle"] * 2 + ["recursion"] * 2 + ["unsuppress"] + ["handlers_group"] + \
            ["wide"] + ["deepgroup"] + ["finally"] + ["exceptstar"] * 2
        kind = r.choice(kinds)
        self.features.add(kind)
        head = "def %s(a):" % name
        body = self.locals_()
        if kind == "leaf":
            body += ["    raise %s" % self.new_exc()]
        elif kind == "call":
            g = self.make(depth - 1)
            body += ["    return %s" % self.call(g)]
        elif kind in ("from", "ctx", "none", "reraise", "note", "unsuppress", "finally"):
            g = self.make(depth - 1)
            body += ["    try:", "        %s" % self.call(g), "    except BaseException as e:"]
            if kind == "from":
                body += ["        raise %s from e" % self.new_exc()]
            elif kind == "ctx":
                body += ["        raise %s" % self.new_exc()]
            elif kind == "none":
                body += ["        raise %s from None" % self.new_exc()]
            elif kind == "reraise":
                body += ["        raise"]
            elif kind == "note":
                body += ["        e.add_note('note for ' + M())", "        e.add_note('second\\nnote')", "        raise"]
            elif kind == "unsuppress":
                body += ["        x = %s" % self.new_exc(), "        x.__cause__ = e", "        x.__suppress_context__ = False",
                         "        raise x"]
            elif kind == "finally":
                g2 = self.make(depth - 2)
                body += ["        try:", "            raise %s from e" % self.new_exc(), "        finally:",
                         "            %s(%s)" % (g2, self.arg())]
        elif kind == "tbnone":
            body += ["    raise %s from %s" % (self.new_exc(), self.new_exc())]
        elif kind == "group":
            subs = [self.make(depth - 1 - r.below(2)) for _ in range(r.range(1, 3))]
            grp, _ = self.new_class(group=True)
            body += ["    excs = []", "    for g in (%s,):" % ", ".join(subs), "        try:", "            g(%s)" % self.arg(),
                     "        except BaseException as e:", "            excs.append(e)"]
            if r.chance(30):
                body += ["    excs.append(%s)" % self.new_exc()]
            if r.chance(50):
                body += ["    raise %s(M(), excs)" % grp]
            else:
                body += ["    try:", "        raise %s" % self.new_exc(), "    except BaseException as e2:",
                         "        raise %s(M(), excs) from e2" % grp]
        elif kind == "handlers_group":
            g1, g2 = self.make(depth - 1), self.make(depth - 2)
            grp, _ = self.new_class(group=True)
            body += ["    try:", "        %s(%s)" % (g1, self.arg()), "    except BaseException as e1:", "        try:",
                     "            %s(%s)" % (g2, self.arg()), "        except BaseException as e2:",
                     "            raise %s(M(), [e1, e2])" % grp]
        elif kind == "exceptstar":
            # PEP 654 handlers: the raised exception (wrapped if it is not a group) is split by type; what the handlers
            # raise is collected into a new group whose members have the matched subgroups as context
            g = self.make(depth - 1)
            body += ["    try:", "        %s" % self.call(g)]
            for typ in self.rng.choice([["ValueError"], ["KeyError", "OSError"], ["AssertionError"], []]):
                how = self.rng.below(3)
                body += ["    except* %s as eg:" % typ,
                         ["        raise", "        raise %s" % self.new_exc(), "        raise %s from eg" % self.new_exc()][how]]
            body += ["    except* Exception as eg:", "        raise %s from eg" % self.new_exc()]
        elif kind == "wide":
            cls, _ = self.new_class("plain")
            grp, _ = self.new_class(group=True)
            n = r.choice([15, 16, 17, 20])
            self.features.add("wide:%d" % n)
            body += ["    excs = [%s('w') for _ in range(%d)]" % (cls, n), "    raise %s(M(), excs)" % grp]
        elif kind == "deepgroup":
            cls, _ = self.new_class("plain")
            grp, _ = self.new_class(group=True)
            n = r.choice([9, 10, 11, 12])
            self.features.add("deepgroup:%d" % n)
            body += ["    x = %s(M())" % cls, "    for _ in range(%d):" % n, "        x = %s(M(), [x])" % grp, "    raise x"]
        elif kind == "cycle":
            g1, g2 = self.make(depth - 1), self.make(depth - 2)
            a1, a2 = r.choice(["__cause__", "__context__"]), r.choice(["__cause__", "__context__"])
            body += ["    try:", "        %s(%s)" % (g1, self.arg()), "    except BaseException as e1:", "        try:",
                     "            %s(%s)" % (g2, self.arg()), "        except BaseException as e2:",
                     "            e1.%s = e2" % a1, "            e2.%s = e1" % a2]
            w = r.below(3)
            if w == 0:
                body += ["            raise e1"]
            elif w == 1:
                body += ["            e1.%s = e1" % a2, "            raise e2"]
            else:
                body += ["            raise %s from e1" % self.new_exc()]
        elif kind == "recursion":
            g = self.make(depth - 1)
            n = r.choice([1, 2, 3, 4, 5, 9])
            self.features.add("recursion:%d" % n)
            head = "def %s(a, n=%d):" % (name, n)
            body += ["    if n > 0:", "        return %s(a, n - 1)" % name, "    return %s(%s)" % (g, self.arg())]
        self.funcs.append(head + "\n" + "\n".join(body) + "\n")
        return name

    def source(self):
        top = self.make(self.rng.range(1, 6))
        return "from dataclasses import dataclass\n" + "".join(self.classes) + "\n" + "\n".join(self.funcs) + "\ndef main():\n    w = GSECRET\n    return %s(w)\n" % top


# ----------------------------------------------------------------------------- running one case
class SkipCase(Exception):
    pass


SINK_KINDS = ["callable", "ascii", "none", "bogus-codec", "latin-1", "callable", "utf-8"]


def sink_kind(seed):
    """how the 8 sinks of one generated case are attached: a callable (loguru assumes utf8) or a stream object
    whose `encoding` attribute decides between the box-drawing and the ASCII value arrows"""
    return SINK_KINDS[(seed >> 5) % len(SINK_KINDS)]


SINK_REGISTRY = {}


def _registered_sink(key):
    return SINK_REGISTRY[key]


class Sink:
    """callable sink; the first call of a logging event captures the heap from the live objects.  A deep copy or a
    pickle round trip of a logger gives back THIS object (registry), so that the reports of copied handlers arrive
    where the oracles look."""

    def __init__(self, shared, mode):
        self.shared, self.mode = shared, mode
        self.key = "sink-%d-%d%d%d" % ((id(shared),) + tuple(int(x) for x in mode))
        SINK_REGISTRY[self.key] = self

    def __deepcopy__(self, memo):
        return self

    def __reduce__(self):
        return (_registered_sink, (self.key,))

    def __call__(self, message):
        sh = self.shared
        if message.record["message"] != "M":
            return              # an event of the surrounding machinery (lazy / patched / onerror entry points)
        if message.record["exception"] is None:
            sh["noexc"] = True
        elif sh.get("heap") is None:
            sh["heap"] = capture_heap(message.record["exception"], sh["genfile"])
            sh["exc"] = message.record["exception"]
        sh["out"][self.mode] = str(message)


class StreamSink(Sink):
    """the same as a stream object (`write`), with an `encoding` attribute like a file or a terminal"""

    def __init__(self, shared, mode, encoding):
        Sink.__init__(self, shared, mode)
        self.encoding = encoding

    def write(self, message):
        Sink.__call__(self, message)


def make_sink(shared, mode, kind):
    if kind == "callable":
        return Sink(shared, mode)
    return StreamSink(shared, mode, {"none": None, "bogus-codec": "no-such-codec"}.get(kind, kind))


def safe(fn, default):
    try:
        return fn()
    except Exception:
        return default


def frame_vals(source, frame):
    """independent reading of `_get_relevant_values` for the simple statements the generator emits:
    every non-keyword NAME (not an attribute, not a keyword argument) found in locals, then globals"""
    vals = []
    try:
        toks = list(tokenize.generate_tokens(io.StringIO(source).readline))
    except (tokenize.TokenError, IndentationError, SyntaxError):
        return None
    prev = None
    for i, t in enumerate(toks):
        if t.type == tokenize.NAME and not keyword.iskeyword(t.string):
            if prev is not None and prev.type == tokenize.OP and prev.string == ".":
                return None
            nxt = toks[i + 1] if i + 1 < len(toks) else None
            if nxt is not None and nxt.type == tokenize.OP and nxt.string == "=" and prev is not None \
                    and prev.type == tokenize.OP and prev.string in "(,":
                return None
            for scope in (frame.f_locals, frame.f_globals):
                if t.string in scope:
                    v = scope[t.string]
                    try:
                        vals.append((repr(v), type(v).__name__))
                    except Exception:
                        vals.append((None, type(v).__name__))
                    break
        if t.type not in (tokenize.NL, tokenize.NEWLINE, tokenize.INDENT, tokenize.DEDENT, tokenize.COMMENT):
            prev = t
    return vals


def capture_heap(exc_info, genfile):
    """walk the live exception graph; ids in first-visit order; everything read from the objects"""
    _t, root, root_tb = exc_info
    hidden_file = loguru_file()
    ids, order = {}, []

    def visit(e):
        if id(e) in ids:
            return
        ids[id(e)] = len(order)
        order.append(e)
        for c in (e.__cause__, e.__context__):
            if c is not None:
                visit(c)
        if isinstance(e, BaseExceptionGroup):
            for m in e.exceptions:
                visit(m)

    visit(root)

    def frame_rec(frame, lineno):
        fn = frame.f_code.co_filename
        src = linecache.getline(fn, lineno).strip()
        vals = frame_vals(src, frame) if (fn == genfile and src) else []
        return {"file": fn, "line": lineno, "func": frame.f_code.co_name, "source": src,
                "hidden": fn == hidden_file, "vals": vals}

    heap = []
    for e in order:
        tb = root_tb if e is root else e.__traceback__
        frames, parents = [], []
        if tb is not None:
            f = tb.tb_frame.f_back
            if e is root:
                while f is not None:
                    parents.append(frame_rec(f, f.f_lineno))
                    f = f.f_back
            t = tb
            while t is not None:
                frames.append(frame_rec(t.tb_frame, t.tb_lineno))
                t = t.tb_next
        only = traceback.format_exception_only(type(e), e)
        label = next((l for l in only if not l.startswith(" ")), "")[:-1]
        heap.append({
            "truthy": safe(lambda: bool(e), True),
            "cause": ids[id(e.__cause__)] if e.__cause__ is not None else -1,
            "context": ids[id(e.__context__)] if e.__context__ is not None else -1,
            "suppress": bool(e.__suppress_context__),
            "group": [ids[id(m)] for m in e.exceptions] if isinstance(e, BaseExceptionGroup) else None,
            "tb": frames, "parents": parents, "label": label, "nolabel": not label,
        })
    return heap


def _harmless():
    return 1


def _raising():
    raise LookupError("earlier use")


def entry_from_dec(entry):
    if entry.startswith("reraise:") or entry.startswith("copy:"):
        return entry.endswith(":d")
    return entry == "decorator" or (entry.startswith("shared:") and entry.endswith(":d")) \
        or entry.startswith("stacked:") or entry.startswith("invoked:")


def indirect_entries(seed):
    """decorator uses whose catching wrapper is NOT called directly by user code: 2-3 stacked catch decorators
    (the inner, a middle or the outer one catches; the others filter on another exception type), and decorated
    callables that loguru itself invokes (a lazy argument, a patcher, an onerror callback).  The one calling frame
    the property asks for is then the first caller that is not loguru's own."""
    r = core.Rng(seed ^ 0x57ACED)
    k = r.choice([2, 2, 3])
    return ["stacked:%d:%d" % (k, r.below(k)), "invoked:" + r.choice(["lazy", "patcher", "onerror"])]


def reraise_entries(seed):
    """the exception first passes through 1-3 `logger.catch(reraise=True)` wrappers (logged there under another
    message and re-raised), then reaches the judged catch (context manager `c` or decorator `d`): loguru's own wrapper
    frames then lie in the MIDDLE of the traceback"""
    r = core.Rng(seed ^ 0x4E4A15E)
    return ["reraise:%d:%s" % (r.range(1, 3), r.choice("cd"))]


COPY_HOWS = ["deepcopy", "pickle", "pickle+deepcopy", "deepcopy-of-bound"]


def copy_entries(seed):
    """the report is produced by a COPY of the logger the handlers were added to (copy.deepcopy, a pickle round trip,
    both, or a deep copy of a logger derived with bind()): the handlers - and their backtrace / diagnose / colorize
    options - must survive copying; judged use: opt(exception=) `o`, catch decorator `d`, catch context manager `c`"""
    r = core.Rng(seed ^ 0xC0B1ED)
    return ["copy:%s:%s" % (r.choice(COPY_HOWS), r.choice("oodc"))]


def copy_logger(lg, how):
    import copy
    import pickle
    if how == "deepcopy":
        return copy.deepcopy(lg)
    if how == "pickle":
        return pickle.loads(pickle.dumps(lg))
    if how == "pickle+deepcopy":
        return copy.deepcopy(pickle.loads(pickle.dumps(lg)))
    return copy.deepcopy(lg.bind(request="r"))


def shared_entries(seed):
    """two reuse patterns for a program: 1-4 earlier uses (d = decorate and call, D = decorate only, c = empty
    with-block, x / X = with-block / decorated function that raises and is logged), then the judged use"""
    r = core.Rng(seed ^ 0x5EED)
    out = []
    for final in ("c", "d"):
        prior = "".join(r.choice("dDcxXdc") for _ in range(r.range(1, 4)))
        out.append("shared:%s:%s" % (prior, final))
    return out


def run_case(src, genfile, entry, limit, sinks="callable"):
    """execute the program and log its exception through the 8 handlers; returns (outputs, heap, error)"""
    from loguru import logger
    linecache.cache[genfile] = (len(src), None, src.splitlines(True), genfile)
    glb = {"__name__": "__main__", "POOL": make_pool(), "GSECRET": SECRET + "-global", "M": Tagger(), "Holder": Holder}
    touched0 = Holder.touched
    exec(compile(src, genfile, "exec"), glb)
    main = glb["main"]
    shared = {"heap": None, "out": {}, "genfile": genfile}
    logger.remove()
    hids = []
    for (b, d, c) in MODES:
        hids.append(logger.add(make_sink(shared, (b, d, c), sinks), format="{message}", backtrace=b, diagnose=d,
                               colorize=c, catch=False))
    had = hasattr(sys, "tracebacklimit")
    old = getattr(sys, "tracebacklimit", None)
    err = None
    copies = []
    try:
        if limit is not None:
            sys.tracebacklimit = limit
        try:
            if entry in ("opt", "exc_true", "exc_method", "tuple_next"):
                try:
                    main()
                except BaseException as e:
                    shared["root_falsy"] = not safe(lambda: bool(e), True)
                    if entry == "opt":
                        logger.opt(exception=e).error("M")
                    elif entry == "exc_true":                 # the exception being handled (sys.exc_info())
                        shared["root_falsy"] = False
                        logger.opt(exception=True).error("M")
                    elif entry == "exc_method":
                        shared["root_falsy"] = False
                        logger.exception("M")
                    else:
                        # an explicit (type, value, traceback) whose traceback is NOT the exception's own: it starts
                        # one frame further in (or is None when there is no further frame)
                        shared["root_falsy"] = False
                        logger.opt(exception=(type(e), e, e.__traceback__.tb_next)).error("M")
            elif entry == "decorator":
                logger.catch(message="M")(main)()
            elif entry.startswith("stacked:"):
                _s, k, target = entry.split(":")
                fn = main
                for j in range(int(k)):        # innermost decorator first
                    fn = (logger.catch(message="M") if j == int(target)
                          else logger.catch(MemoryError, message="other"))(fn)
                fn()
            elif entry.startswith("invoked:"):
                how = entry.split(":")[1]
                if how == "lazy":
                    logger.opt(lazy=True).info("lazy {}", logger.catch(message="M")(main))
                elif how == "patcher":
                    logger.patch(logger.catch(message="M")(lambda record: main())).info("patched")
                else:
                    with logger.catch(message="outer", onerror=logger.catch(message="M")(lambda exc: main())):
                        raise LookupError("outer error")
            elif entry.startswith("copy:"):
                _s, how, final = entry.split(":")
                lg = copy_logger(logger, how)
                copies.append(lg)
                if final == "o":
                    try:
                        main()
                    except BaseException as e:
                        shared["root_falsy"] = not safe(lambda: bool(e), True)
                        lg.opt(exception=e).error("M")
                elif final == "d":
                    lg.catch(message="M")(main)()
                else:
                    with lg.catch(message="M"):
                        main()
            elif entry.startswith("reraise:"):
                _s, k, final = entry.split(":")
                fn = main
                for _j in range(int(k)):
                    fn = logger.catch(reraise=True, message="passing through")(fn)
                if final == "d":
                    logger.catch(message="M")(fn)()
                else:
                    with logger.catch(message="M"):
                        fn()
            elif entry.startswith("shared:"):
                # ONE catch object used several times, as decorator and as context manager in any order; the
                # property's clauses are about each use, so only the last (logged and judged) use matters
                _s, prior, final = entry.split(":")
                guard = logger.catch(message="M")
                for u in prior:
                    if u == "d":
                        guard(_harmless)()
                    elif u == "D":
                        guard(_harmless)
                    elif u == "c":
                        with guard:
                            pass
                    elif u == "x":
                        with guard:
                            raise LookupError("earlier use")
                    elif u == "X":
                        guard(_raising)()
                shared.update(heap=None, exc=None, noexc=False)
                shared["out"].clear()
                if final == "d":
                    guard(main)()
                else:
                    with guard:
                        main()
            else:
                with logger.catch(message="M"):
                    main()
        except BaseException as e:  # the formatter (or the program through catch) let something escape
            if isinstance(e, (KeyboardInterrupt, SystemExit)):
                raise
            err = e
    finally:
        if had:
            sys.tracebacklimit = old
        elif hasattr(sys, "tracebacklimit"):
            del sys.tracebacklimit
        for h in hids:
            try:
                logger.remove(h)
            except ValueError:
                pass
        for lg in copies:
            try:
                lg.remove()
            except Exception:
                pass
        for k in [k for k, v in SINK_REGISTRY.items() if v.shared is shared]:
            del SINK_REGISTRY[k]
    if err is None and Holder.touched != touched0:
        err = RuntimeError("the report evaluated a property / __getattr__ of an object in a frame variable")
    if err is None and shared.get("noexc") and shared.get("root_falsy"):
        # documented: opt(exception=x) attaches the exception only "if it does not evaluate as False"
        err = SkipCase("falsy exception passed to opt(exception=)")
    return shared["out"], shared["heap"], shared.get("exc"), err


# ----------------------------------------------------------------------------- reference text (oracle 1)
def std_reference(exc_info, limit, extra_root):
    """Python's own rendering of the frames the property asks for: TracebackException with every
    stack reduced to (caller frame for the decorator +) the non-loguru frames, suffix-limited, and
    without column information (so no ^^^^ marker lines)."""
    _t, exc, tb = exc_info
    hidden = loguru_file()
    had = hasattr(sys, "tracebacklimit")
    old = getattr(sys, "tracebacklimit", None)
    if had:
        del sys.tracebacklimit
    try:
        te = traceback.TracebackException(type(exc), exc, tb, compact=True)
    finally:
        if had:
            sys.tracebacklimit = old
    seen = set()

    def patch(t, is_root):
        if id(t) in seen:
            return
        seen.add(id(t))
        frames = [(f.filename, f.lineno, f.name, f.line) for f in t.stack if f.filename != hidden]
        if is_root and frames:
            frames = extra_root + frames
        if is_root and not frames and t.stack:
            frames = extra_root
        if limit is not None:
            frames = frames[-limit:] if limit > 0 else []
        t.stack = traceback.StackSummary.from_list(frames)
        for c in (t.__cause__, t.__context__):
            if c is not None:
                patch(c, False)
        for m in (t.exceptions or []):
            patch(m, False)

    patch(te, True)
    return "".join(te.format())


# ----------------------------------------------------------------------------- parse-back
LOC = re.compile(r'^(  |> )File "(.*)", line (\d+), in (.*)$')
RULER = re.compile(r"^( *)(\+-)?\+-+ (\d+|\.\.\.) -+$")
CLOSE = re.compile(r"^( *)\+-{36}$")
MARGIN = re.compile(r"^((?:  )+)([|+])(?: (.*))?$")
VALUE = re.compile(r"^(    [ │|]*)(└|->)(?: (.*))?$")
LINE_BREAKS = "\r\x0b\x0c\x1c\x1d\x1e\x85\u2028\u2029"


def canon_value(v):
    """what is compared between model and report for one value: ANSI removed (the report is stripped as a
    whole), every line cut at the first str.splitlines() boundary other than \\n (`_indent` re-splits the
    text there inside groups) and right-stripped (`_indent` strips), trailing empty lines dropped"""
    lines = []
    for l in ANSI.sub("", v).split("\n"):
        for ch in LINE_BREAKS:
            k = l.find(ch)
            if k >= 0:
                l = l[:k]
        lines.append(l.rstrip())
    while len(lines) > 1 and lines[-1] == "":
        lines.pop()
    return "\n".join(lines)
REPEAT = re.compile(r"^  \[Previous line repeated (\d+) more times?\]$")
MORE = re.compile(r"^and (\d+) more exceptions?$")


def parse_text(text, labels, assert_labels):
    """exception text -> list of piece tuples (depth last)"""
    out = []
    cont = None    # continuation of a multi-line value: [prefix, depth, index in out, pending empty lines]

    def at_depth(raw, d):
        """the content of `raw` read as a line of group nesting d (None if it cannot be one).  With an ASCII sink the
        pipes of value lines (`    |  -> value`) look like group margins, so value lines are read at the nesting of
        the frame they belong to before the generic margin rule is tried."""
        if d == 0:
            return raw
        pre = "  " * d + "|"
        if raw == pre:
            return ""
        return raw[len(pre) + 1:] if raw.startswith(pre + " ") else None

    for raw in ANSI.sub("", text).split("\n"):
        if cont is not None:
            cd, cline = 0, raw
            mm = MARGIN.match(raw)
            if mm:
                cd, cline = len(mm.group(1)) // 2, mm.group(3) or ""
            alt = at_depth(raw, cont[1])
            if alt is not None and (alt.startswith(cont[0]) or (cont[1] > 0 and alt != "" and cont[0].startswith(alt))):
                cd, cline = cont[1], alt
            if cd == cont[1] and cline.startswith(cont[0]):
                k, t, dd = out[cont[2]]
                out[cont[2]] = (k, t + "\n" * (cont[3] + 1) + cline[len(cont[0]):], dd)
                cont[3] = 0
                continue
            if cd == cont[1] and cont[0].startswith(cline) and cont[1] > 0 and cline != "":
                cont[3] += 1        # a right-stripped empty continuation line inside a group
                continue
            cont = None
        if not raw.strip():
            continue
        m = RULER.match(raw)
        if m:
            first = m.group(2) is not None
            d = len(m.group(1)) // 2 - (0 if first else 1)
            out.append(("ruler", m.group(3) if m.group(3) != "..." else "x", first, d))
            continue
        m = CLOSE.match(raw)
        if m:
            out.append(("end", len(m.group(1)) // 2 - 1))
            continue
        d, plus, line = 0, False, raw
        m = MARGIN.match(raw)
        if m:
            d, plus, line = len(m.group(1)) // 2, m.group(2) == "+", m.group(3) or ""
        if out and out[-1][0] in ("frame", "val"):
            alt = at_depth(raw, out[-1][-1])
            if alt is not None and VALUE.match(alt):
                d, plus, line = out[-1][-1], False, alt
        if not line.strip():
            continue
        m = LOC.match(line)
        if m:
            out.append(("frame", m.group(2), int(m.group(3)), m.group(4), m.group(1) == "> ", d))
        elif line == "Traceback (most recent call last):":
            out.append(("intro", False, d, plus))
        elif line == "Exception Group Traceback (most recent call last):":
            out.append(("intro", True, d, plus))
        elif line == CAUSE_MSG:
            out.append(("cause", d))
        elif line == CONTEXT_MSG:
            out.append(("context", d))
        elif REPEAT.match(line):
            out.append(("rep", int(REPEAT.match(line).group(1)), d))
        elif MORE.match(line):
            out.append(("more", int(MORE.match(line).group(1)), d))
        elif line == "... (max_group_depth is 10)":
            out.append(("maxdepth", d))
        elif VALUE.match(line):
            mv = VALUE.match(line)
            out.append(("val", mv.group(3) or "", d))
            cont = [mv.group(1) + " " * (len(mv.group(2)) + 1), d, len(out) - 1, 0]
        elif line in labels:
            out.append(("only", line, d))
        else:
            for lab in assert_labels:
                if line.startswith(lab + ": "):
                    out.append(("only", lab, d))
                    break
    return out


def model_pieces(tokens, heap):
    out = []
    for t in tokens:
        p = t.split(",")
        k = p[0]
        if k == "pfx":
            continue
        if k == "intro":
            out.append(("intro", p[1] == "1", int(p[2]), p[3] == "1"))
        elif k == "frame":
            out.append(("frame", dec(p[1]), int(p[2]), dec(p[3]), p[4] == "1", int(p[5])))
        elif k == "val":
            out.append(("val", dec(p[1]), int(p[2])))
        elif k == "rep":
            out.append(("rep", int(p[1]), int(p[2])))
        elif k in ("cause", "context", "maxdepth", "end"):
            out.append((k, int(p[1])))
        elif k == "only":
            out.append(("only", heap[int(p[1])]["label"], int(p[2])))
        elif k == "ruler":
            out.append(("ruler", p[1], p[2] == "1", int(p[3])))
        elif k == "more":
            out.append(("more", int(p[1]), int(p[2])))
        else:
            out.append(("?", t))
    return out


def align_values(mp, ip):
    """canonical form of the value pieces of model (mp) and report (ip) before they are compared: whole values
    (all lines) in general; only the text before the first line boundary when the value contains a
    str.splitlines() boundary other than \\n, because `_indent` re-splits such values inside groups and the
    colour codes wrapped around them"""
    mp, ip = list(mp), list(ip)
    for i in range(min(len(mp), len(ip))):
        if mp[i][0] == "val" and ip[i][0] == "val":
            if any(ch in mp[i][1] for ch in LINE_BREAKS):
                mp[i] = ("val", canon_value(mp[i][1]).split("\n")[0], mp[i][2])
                ip[i] = ("val", canon_value(ip[i][1]).split("\n")[0], ip[i][2])
            else:
                mp[i] = ("val", canon_value(mp[i][1]), mp[i][2])
                ip[i] = ("val", canon_value(ip[i][1]), ip[i][2])
    return mp, ip


def drop_foreign_values(pieces, genfile, heap):
    """value pieces are compared only under frames of the generated file (the model is given the
    values of those frames only) and only when the harness could compute them"""
    known = set()
    for x in heap:
        for f in x["tb"] + x["parents"]:
            if f["vals"] is not None and f["file"] == genfile:
                known.add((f["file"], f["line"], f["func"]))
    out, keep = [], False
    for p in pieces:
        if p[0] == "frame":
            keep = (p[1], p[2], p[3]) in known
            out.append(p)
        elif p[0] == "val":
            if keep:
                out.append(p)
        else:
            if p[0] != "rep":
                keep = False
            out.append(p)
    return out


def heap_line(kind, heap, mode, limit, from_dec, budget, with_vals=True):
    b, d, c = mode
    if kind == "fmtall":
        toks = [kind, "n" if limit is None else str(limit), "128", "1" if from_dec else "0", str(budget), "0", str(len(heap))]
    else:
        toks = [kind, "1" if b else "0", "1" if d else "0", "1" if c else "0", "n" if limit is None else str(limit),
                "128", "1" if from_dec else "0", str(budget), "0", str(len(heap))]

    def fr(f):
        vals = f["vals"] or []
        # only the emptiness of the source line matters to the model
        t = [enc(f["file"]), str(f["line"]), enc(f["func"]), "78" if f["source"] else "-", "1" if f["hidden"] else "0", str(len(vals))]
        for r, ty in vals:
            t += ["!" if r is None else enc(r[:WIRE]), enc(ty[:WIRE])]
        return t

    for x in heap:
        toks += ["1" if x["truthy"] else "0", str(x["cause"]), str(x["context"]), "1" if x["suppress"] else "0"]
        if x["group"] is None:
            toks.append("-1")
        else:
            toks += [str(len(x["group"]))] + [str(i) for i in x["group"]]
        toks.append(str(len(x["tb"])))
        for f in x["tb"]:
            toks += fr(f)
        toks.append(str(len(x["parents"])))
        for f in x["parents"]:
            toks += fr(f)
    return " ".join(toks)


# ----------------------------------------------------------------------------- oracles on one output
def expected_frames(x, is_root, backtrace, from_dec, limit):
    """the frames the property asks for, from the live traceback: (file, line, func, mark)"""
    tb = x["tb"]
    if not tb or (limit is not None and limit <= 0):
        return []
    vis = lambda fs: [(f["file"], f["line"], f["func"]) for f in fs if not f["hidden"]]
    head, rest = vis(tb[:1]), vis(tb[1:])
    pre, mark_at = [], None
    if is_root and from_dec and not backtrace:
        pre = vis(x["parents"])[:1]
    elif is_root and backtrace:
        pre = list(reversed(vis(x["parents"])))
        mark_at = len(pre) + len(head) - 1
    frames = pre + head + rest
    out = [(f[0], f[1], f[2], i == mark_at) for i, f in enumerate(frames)]
    if limit is not None:
        out = out[-limit:]
    return out


def check_frames_in_order(pieces, heap, mode, from_dec, limit):
    """oracle 5: between an intro (or the previous exception) and each `only` piece the frame pieces,
    with `rep n` expanded, are exactly the expected frames of that exception in order.  The mapping
    only-label -> exception is by label (identical labels are interchangeable)."""
    by_label = {}
    for i, x in enumerate(heap):
        by_label.setdefault(x["label"], []).append(i)
    cur = []
    root_label = heap[0]["label"]
    last_root_only = max([i for i, p in enumerate(pieces) if p[0] == "only" and p[1] == root_label and p[2] <= 1] or [-1])
    for idx, p in enumerate(pieces):
        if p[0] in ("frame", "rep"):
            cur.append(p)
        elif p[0] == "only":
            cands = by_label.get(p[1], [])
            ok = False
            why = ""
            for i in cands:
                is_root = (i == 0 and idx == last_root_only)
                exp = expected_frames(heap[i], is_root, mode[0], from_dec, limit)
                ptr, good, lastf = 0, True, None
                for q in cur:
                    if q[0] == "frame":
                        got = (q[1], q[2], q[3], q[4])
                        if ptr >= len(exp) or exp[ptr] != got:
                            good = False
                            why = "frame %r where %r was expected" % (got, exp[ptr] if ptr < len(exp) else None)
                            break
                        lastf = got
                        ptr += 1
                    else:
                        n = q[1]
                        if lastf is None or exp[ptr:ptr + n] != [lastf] * n or len(exp[ptr:ptr + n]) != n:
                            good = False
                            why = "repeat %d does not fold identical frames" % n
                            break
                        ptr += n
                if good and ptr != len(exp):
                    good = False
                    why = "%d of %d expected frames shown" % (ptr, len(exp))
                if good:
                    ok = True
                    break
            if not ok:
                return "exception %r: %s" % (p[1], why or "unknown exception line")
            cur = []
        elif p[0] in ("intro", "val"):
            pass
        else:
            if cur:
                return "frames not followed by their exception line"
    return None


def closing_quirk(heap):
    """some non-group member of a group reaches a group through cause/context links"""
    def reaches_group(i):
        seen, todo = set(), [i]
        while todo:
            j = todo.pop()
            for t in (heap[j]["cause"], heap[j]["context"]):
                if t >= 0 and t not in seen:
                    seen.add(t)
                    if heap[t]["group"] is not None:
                        return True
                    todo.append(t)
        return False
    for x in heap:
        for m in (x["group"] or []):
            if heap[m]["group"] is None and reaches_group(m):
                return True
    return False


WIDE_RULER = re.compile(r"\+-+ (\d\d+|\.\.\.) -+$")


def wide_norm(line):
    """forget what finding F19 is about: ruler width for member numbers >= 10 / '...', and the plural of
    'and 1 more exceptions'"""
    line = WIDE_RULER.sub(lambda m: "+- %s -" % m.group(1), line)
    return line.replace("and 1 more exceptions", "and 1 more exception")


def shared_nodes(heap):
    """does the graph contain a group and a node with >= 2 incoming edges (or the root with one)?"""
    if not any(x["group"] is not None for x in heap):
        return False
    indeg = {0: 1}
    for i, x in enumerate(heap):
        tgt = set()
        for t in (x["cause"], x["context"]):
            if t >= 0:
                tgt.add(("c", t))
        for t in (x["group"] or []):
            tgt.add(("m", t))
        for _k, t in tgt:
            indeg[t] = indeg.get(t, 0) + 1
    return any(v >= 2 for v in indeg.values())


def judge_case(ctx, rep, src, genfile, entry, limit, outs, heap, exc_info, err, lines, pending):
    """all direct oracles for one executed case; queues the model lines"""
    from_dec = entry_from_dec(entry)
    if isinstance(err, SkipCase):
        ctx.stat("skipped:" + str(err))
        return
    if err is not None:
        key = F12_KEY if isinstance(err, RecursionError) and len(heap or []) > 250 else None
        ctx.violation("oracle 3 (never fails): %s escaped from logging an exception: %r" % (type(err).__name__, err),
                      dict(rep, oracle="no-raise"), key=key)
        return
    if heap is None or len(outs) != 8:
        ctx.violation("oracle 3 (never fails): %d of 8 handlers produced a report" % len(outs), dict(rep, oracle="no-raise"))
        return
    labels = set(x["label"] for x in heap if x["label"])
    assert_labels = [x["label"] for x in heap if x["label"] and ":" not in x["label"]]
    for mode in MODES:
        text = outs[mode]
        body = text[2:] if text.startswith("M\n") else text
        plain = ANSI.sub("", body)
        mrep = dict(rep, mode=list(mode))
        # oracle 2: secrets never appear without diagnose
        if not mode[1]:
            if SECRET in plain:
                ln = next(l for l in plain.split("\n") if SECRET in l)
                ctx.violation("oracle 2 (diagnose=False hides values): a variable value is printed: %r" % ln[:200],
                              dict(mrep, oracle="no-secret"))
        pieces = parse_text(body, labels, assert_labels)
        if not mode[1] and SECRET not in plain and ("└" in plain or any(p[0] == "val" for p in pieces)):
            ctx.violation("oracle 2 (diagnose=False hides values): a value line is printed", dict(mrep, oracle="no-secret"))
        # oracle 4: values bounded
        if mode[1]:
            nval = sum(1 for p in pieces if p[0] == "val")
            for p in pieces:
                if p[0] == "val" and len(p[1]) > 128:
                    ctx.violation("oracle 4 (values bounded): one displayed value has %d characters on %d lines: %r..."
                                  % (len(p[1]), p[1].count("\n") + 1, p[1][:40]), dict(mrep, oracle="bounded"))
                    break
            else:
                # layout-independent second look: characters of the marker reprs anywhere in the report
                if plain.count(MARK) > 128 * nval:
                    ctx.violation("oracle 4 (values bounded): %d value characters in a report that displays %d values"
                                  % (plain.count(MARK), nval), dict(mrep, oracle="bounded"))
            ctx.stat("value_lines", nval)
            ctx.stat("multi_line_values", sum(1 for p in pieces if p[0] == "val" and "\n" in p[1]))
        # oracle 1: plain mode is the standard traceback
        if mode == (False, False, False):
            extra = []
            if from_dec:
                ps = [f for f in heap[0]["parents"] if not f["hidden"]][:1]
                extra = [(f["file"], f["line"], f["func"], f["source"] or None) for f in ps]
            ref = std_reference(exc_info, limit, extra)
            a, b = [l.rstrip() for l in body.split("\n")], [l.rstrip() for l in ref.split("\n")]
            if a != b and closing_quirk(heap):
                # CPython 3.12 omits the closing line of a group whose last member is not a group but has a
                # group in its cause/context chain (`_ctx.need_close` is reset by the nested group); loguru
                # prints it.  Not counted against loguru: compare without closing lines for such graphs.
                ctx.stat("cpython_need_close_quirk")
                a = [l for l in a if not CLOSE.match(l)]
                b = [l for l in b if not CLOSE.match(l)]
            if a != b:
                key = None
                i = next((k for k in range(min(len(a), len(b))) if a[k] != b[k]), min(len(a), len(b)))
                if [wide_norm(l) for l in a] == [wide_norm(l) for l in b]:
                    key = GRP_WIDE_KEY
                elif shared_nodes(heap):
                    key = GRP_SHARED_KEY
                ctx.violation("oracle 1 (plain mode = standard traceback): line %d is %r, traceback gives %r"
                              % (i + 1, a[i] if i < len(a) else None, b[i] if i < len(b) else None),
                              dict(mrep, oracle="standard", expected=ref[-1500:], observed=body[-1500:]), key=key)
        # oracle 5: frames shown = traceback frames in order
        why = check_frames_in_order(pieces, heap, mode, from_dec, limit)
        if why:
            ctx.violation("oracle 5 (frames are the traceback's frames in order): %s" % why, dict(mrep, oracle="frames"))
        pending.append((mrep, heap, genfile, pieces, mode))
    lines.append(heap_line("fmtall", heap, MODES[0], limit, from_dec, MODEL_BUDGET))
    ctx.traces_validated += 1


# ----------------------------------------------------------------------------- synthetic stacks (`_extract_frames` directly)
SYN_HIDDEN = "/synthetic/loguru_own.py"
SYN_USER = "/synthetic/user_%d.py"
CATCH_MARK = " <Loguru catch point here>"
SYN_SOURCES = ["callee(alpha, beta)", "return alpha + gamma.attr.deep", "x = f(k=alpha, w=beta); y = gamma.attr",
               "raise Boom(alpha) from beta", "alpha", "assert alpha == beta, gamma", "del alpha  # beta gamma"]


class _SynCode:
    def __init__(self, filename, name):
        self.co_filename, self.co_name = filename, name


class _SynFrame:
    def __init__(self, filename, name, lineno, f_locals):
        self.f_code, self.f_lineno, self.f_back = _SynCode(filename, name), lineno, None
        self.f_locals, self.f_globals = f_locals, {"gamma": _SynHolder(), "GSECRET": SECRET + "-global"}


class _SynHolder:
    """attribute access in a source line must be resolved statically: no property / __getattr__ may run"""
    touched = 0

    def __init__(self):
        self.deep = SECRET + "-deep"

    @property
    def attr(self):
        _SynHolder.touched += 1
        raise RuntimeError(SECRET + " property evaluated")

    def __getattr__(self, name):
        _SynHolder.touched += 1
        raise RuntimeError(SECRET + " __getattr__ evaluated")

    def __repr__(self):
        return "<holder " + SECRET + ">"


class _SynTb:
    def __init__(self, frame, lineno):
        self.tb_frame, self.tb_lineno, self.tb_next = frame, lineno, None


_SYN_CACHE = {}


def synth_formatter(bt, dg, co):
    from loguru._better_exceptions import ExceptionFormatter
    if (bt, dg, co) not in _SYN_CACHE:
        _SYN_CACHE[(bt, dg, co)] = ExceptionFormatter(backtrace=bt, diagnose=dg, colorize=co,
                                                      hidden_frames_filename=SYN_HIDDEN)
    return _SYN_CACHE[(bt, dg, co)]


def synth_spec(rng):
    """(backtrace, diagnose, colorize, is_first, from_decorator, limit, traceback flags, caller flags, source seed):
    one character per frame, h = loguru's own file, v = any other file"""
    def flags(n, hidden_pct):
        return "".join("h" if rng.chance(hidden_pct) else "v" for _ in range(n))
    hp = rng.choice([0, 20, 50, 80, 100])
    ntb = rng.choice([0, 1, 1, 2, 3, 4, 6, 9])
    npar = rng.choice([0, 0, 1, 2, 3, 5, 8])
    limit = rng.choice([None, None, None, -3, -1, 0, 1, 2, 3, 4, 5, 7, 12, 100, 10 ** 9])
    first = rng.chance(70)
    fd = rng.chance(40)
    return [rng.chance(50), rng.chance(50), rng.chance(30), first, fd, limit, flags(ntb, hp), flags(npar, hp),
            rng.below(1 << 30) if rng.chance(60) else None]


def synth_build(spec):
    bt, dg, co, first, fd, limit, tbf, pf, srcseed = spec
    r = core.Rng(srcseed) if srcseed is not None else None
    if not _SYN_CACHE.get("pool"):
        _SYN_CACHE["pool"] = make_pool()
    pool = _SYN_CACHE["pool"]
    registered = {}

    def mk(kind, idx, lineno, hidden):
        fn = SYN_HIDDEN if hidden else SYN_USER % (idx + (0 if kind == "t" else 1000))
        loc = {}
        if r is not None and not hidden and r.chance(60):
            src = r.choice(SYN_SOURCES)
            lines = [""] * max(lineno, 1)
            lines[lineno - 1 if lineno > 0 else 0] = "    " + src + "\n"
            if lineno > 0:
                linecache.cache[fn] = (1, None, lines, fn)
                registered[fn] = src
            loc = {"alpha": pool[r.below(len(pool))], "beta": pool[r.below(len(pool))], "Boom": ValueError}
        return _SynFrame(fn, "fn_%s%d" % (kind, idx), lineno, loc)

    parents = [mk("p", j, 1001 + j, c == "h") for j, c in enumerate(pf)]
    for a, b_ in zip(parents, parents[1:]):
        a.f_back = b_
    tbs = []
    for i, c in enumerate(tbf):
        f = mk("t", i, 1 + i, c == "h")
        f.f_back = (parents[0] if parents else None) if i == 0 else tbs[-1].tb_frame
        tbs.append(_SynTb(f, 1 + i))
    for a, b_ in zip(tbs, tbs[1:]):
        a.tb_next = b_
    return (tbs[0] if tbs else None), registered


def synth_expected(spec):
    """the frames the property names, as (number, catch mark): [callers as the mode asks] + the traceback's own
    non-loguru frames, last `limit` of them"""
    bt, _dg, _co, first, fd, limit, tbf, pf, _s = spec
    if not tbf or (limit is not None and limit <= 0):
        return []
    vis_tb = [1 + i for i, c in enumerate(tbf) if c == "v"]
    vis_p = [1001 + j for j, c in enumerate(pf) if c == "v"]
    pre, mark = [], None
    if fd and not bt:
        pre = vis_p[:1]
    elif bt and first:
        pre = vis_p[::-1]
        upto = pre + ([1] if tbf[0] == "v" else [])
        mark = upto[-1] if upto else None
    out = [(n, n == mark) for n in pre + vis_tb]
    return out if limit is None else out[-limit:]


def synth_line(spec):
    bt, _dg, _co, first, fd, limit, tbf, pf, _s = spec
    return "xf %d %d %d %s %s %s" % (bt, first, fd, "n" if limit is None else limit, tbf or "-", pf or "-")


def synth_run(spec):
    """-> (frames as (number, mark), problem or None)"""
    bt, dg, co, first, fd, limit, tbf, pf, _s = spec
    tb, registered = synth_build(spec)
    touched0 = _SynHolder.touched
    try:
        fmtr = synth_formatter(bt, dg, co)
        try:
            frames, _final = fmtr._extract_frames(tb, first, limit=limit, from_decorator=fd)
        except Exception as e:
            return None, "oracle 3 (never fails): _extract_frames raised %r" % (e,)
    finally:
        for fn in registered:
            linecache.cache.pop(fn, None)
    got, problem = [], None
    for filename, lineno, function, source in frames:
        got.append((lineno, function.endswith(CATCH_MARK)))
        want = registered.get(filename, "")
        text = ANSI.sub("", source or "")
        if filename == SYN_HIDDEN:
            problem = problem or "one of loguru's own frames is shown"
        if not dg:
            if text != want:
                problem = problem or ("oracle 2 (diagnose=False hides values): the source line of a frame is %r, the file "
                                      "has %r" % (text[:200], want))
        else:
            first_line = text.split("\n")[0]
            if first_line != want:
                problem = problem or "the source line of a frame is %r, the file has %r" % (first_line[:200], want)
            vls = text.split("\n")[1:]
            for vl in vls:
                if len(vl) > 4 + len(want) + 3 + 128:
                    problem = problem or "oracle 4 (values bounded): a value line of %d characters under a source line " \
                        "of %d characters" % (len(vl), len(want))
            ncap = sum(1 for vl in vls if "-> " in vl or "\u2514 " in vl)
            if text.count(MARK) > 128 * ncap:
                problem = problem or "oracle 4 (values bounded): %d value characters where %d values are displayed" % (
                    text.count(MARK), ncap)
    if _SynHolder.touched != touched0:
        problem = problem or "oracle 3: displaying `obj.attr` evaluated a property / __getattr__ of a user object"
    return got, problem


def run_synth(ctx, rng, n):
    lines, exp = [], []
    for _ in range(n):
        spec = synth_spec(rng)
        rep = {"stream": "synth", "spec": spec}
        got, problem = synth_run(spec)
        want = synth_expected(spec)
        ctx.case(("synth",) + tuple(spec), nontrivial=len(want) >= 2)
        ctx.stat("synth:%s" % ("no traceback" if not spec[6] else "limit<=0" if spec[5] is not None and spec[5] <= 0
                               else "decorator caller" if spec[4] and not spec[0] else
                               "backtrace" if spec[0] and spec[3] else "own frames only"))
        if problem:
            ctx.violation("synthetic stack %r: %s" % (spec[:8], problem), dict(rep, oracle="synth"))
            continue
        if got != want and (spec[3] or not spec[4]):
            ctx.violation("oracle 5 (frames are the traceback's frames in order) on a synthetic stack: _extract_frames("
                          "backtrace=%s, is_first=%s, from_decorator=%s, limit=%s) over traceback %r / callers %r shows "
                          "%r, expected %r" % (spec[0], spec[3], spec[4], spec[5], spec[6], spec[7], got, want),
                          dict(rep, oracle="synth"))
        lines.append(synth_line(spec))
        exp.append((spec, got))
    return lines, exp


# ----------------------------------------------------------------------------- the closing line (`__str__` of the exception)
CLOSING_FILE = "/synthetic/closing_%d.py"
CLOSING_SRC = "def boom(exc):\n    raise exc\n"


class _StrFailed(Exception):
    pass


def closing_grid():
    """(base, str behaviour, args, raised, source available, diagnose, backtrace)"""
    out = []
    for base in ("AssertionError", "AssertSub", "Exception", "ValueError", "KeyError"):
        for sk in ("default", "empty", "text", "raise", "raise_custom", "spaces"):
            for args in ((), ("",), ("msg",)):
                for raised in (True, False):
                    for src in (True, False):
                        for dg in (True, False):
                            for bt in (False, True):
                                if (not raised and not src) or (bt and not dg and sk != "raise"):
                                    continue
                                out.append((base, sk, args, raised, src, dg, bt))
    return out


def closing_make(spec):
    base, sk, args, raised, src, dg, bt = spec
    parent = {"AssertionError": AssertionError, "Exception": Exception, "ValueError": ValueError, "KeyError": KeyError,
              "AssertSub": type("AssertSub", (AssertionError,), {})}[base]
    body = {}
    if sk == "empty":
        body["__str__"] = lambda self: ""
    elif sk == "text":
        body["__str__"] = lambda self: "text " + SECRET
    elif sk == "spaces":
        body["__str__"] = lambda self: "  "
    elif sk == "raise":
        def bad(self):
            raise RuntimeError("str failed")
        body["__str__"] = bad
    elif sk == "raise_custom":
        def bad2(self):
            raise _StrFailed("str failed")
        body["__str__"] = bad2
    cls = type("C_" + base, (parent,), body) if body else parent
    e = cls(*args)
    fn = CLOSING_FILE % (1 if src else 0)
    if raised:
        glb = {}
        exec(compile(CLOSING_SRC, fn, "exec"), glb)
        try:
            glb["boom"](e)
        except BaseException as caught:
            e = caught
    return e, fn


def closing_run(spec):
    """-> (appended?, str outcome token, problem or None)"""
    from loguru._better_exceptions import ExceptionFormatter
    base, sk, args, raised, src, dg, bt = spec
    e, fn = closing_make(spec)
    if src:
        linecache.cache[fn] = (len(CLOSING_SRC), None, CLOSING_SRC.splitlines(True), fn)
    try:
        key = ("closing", dg, bt)
        if key not in _SYN_CACHE:
            _SYN_CACHE[key] = ExceptionFormatter(diagnose=dg, backtrace=bt, colorize=False, hidden_frames_filename=__file__)
        try:
            text = "".join(_SYN_CACHE[key].format_exception(type(e), e, e.__traceback__))
        except Exception as err:
            return None, None, "oracle 3 (never fails): format_exception raised %r for an exception whose __str__ %s" % (
                err, "raises" if sk.startswith("raise") else "returns")
        std = traceback.format_exception_only(type(e), e)
    finally:
        linecache.cache.pop(fn, None)
    try:
        tok = "s" if str(e) else "e"
    except Exception:
        tok = "!"
    std_line = next((l for l in std if not l.startswith(" ")), "\n")[:-1]
    lines = text.split("\n")
    plain, appended = std_line in lines, (std_line + ": raise exc") in lines
    problem = None
    if not dg and "".join(std) != text[-len("".join(std)):]:
        problem = "the closing lines are %r, traceback.format_exception_only gives %r" % (text[-200:], "".join(std))
    elif plain == appended:
        problem = "closing line neither standard nor standard + ': <source>': %r (standard %r)" % (lines[-3:], std_line)
    elif appended and not (dg and isinstance(e, AssertionError)):
        problem = "source appended to the closing line %r outside diagnose / AssertionError" % (lines[-2],)
    return appended, tok, problem


# ----------------------------------------------------------------------------- `_format_list` directly (folding of repeats)
def flist_spec(rng):
    """a frame sequence as a digit string: runs of 1-9 identical frames over a small alphabet"""
    out = ""
    for _ in range(rng.range(0, 6)):
        out += str(rng.below(3)) * rng.choice([1, 1, 2, 3, 4, 4, 5, 6, 9])
    return out


def flist_canon(lines):
    out = []
    for l in lines:
        m = re.match(r'  File "/synthetic/f(\d)\.py", line', l)
        r = REPEAT.match(l.rstrip("\n"))
        out.append("f" + m.group(1) if m else ("r" + r.group(1) if r else "?" + l[:30]))
    return out


def flist_run(spec):
    """-> (loguru's folding, the standard library's folding of the same frames) in canonical form"""
    frames = [("/synthetic/f%s.py" % c, 10 + int(c), "fn" + c, "source %s" % c) for c in spec]
    got = synth_formatter(False, False, False)._format_list(frames)
    ref = traceback.StackSummary.from_list(frames).format()
    return flist_canon(got), flist_canon(ref)


# ----------------------------------------------------------------------------- enqueue=True: the record is pickled after formatting
class _NeedsKw(Exception):
    def __init__(self, *, code):
        super().__init__("kw %s" % code)
        self.code = code


class _BadReduce(Exception):
    def __reduce__(self):
        raise RuntimeError("reduce failed")


class _HoldsLambda(Exception):
    def __init__(self, m):
        super().__init__(m)
        self.fn = lambda: 1


class _BadSetstate(Exception):
    def __init__(self, m):
        super().__init__(m)
        self.x = 1

    def __setstate__(self, st):
        raise RuntimeError("setstate failed")


class _BadStrQ(Exception):
    def __str__(self):
        raise RuntimeError("str failed")


def _local_exc():
    class Local(Exception):
        pass
    return Local("local class")


ENQUEUE_OBJECTS = {
    "plain": lambda: ValueError("plain"),
    "keyword-only __init__ (unpickling fails)": lambda: _NeedsKw(code=3),
    "__reduce__ raises": lambda: _BadReduce("r"),
    "holds a lambda (unpicklable value)": lambda: _HoldsLambda("l"),
    "class defined in a function (unpicklable type)": _local_exc,
    "__str__ raises": lambda: _BadStrQ("s"),
    "__setstate__ raises": lambda: _BadSetstate("t"),
    "group with an unpicklable member": lambda: ExceptionGroup("g", [ValueError(1), _HoldsLambda("in group")]),
    "chain with an unpicklable cause": lambda: _chain(KeyError("outer"), _HoldsLambda("cause")),
}


def _chain(e, cause):
    e.__cause__ = cause
    return e


def enqueue_run(name, mode):
    """log one object through an enqueue=True and a plain handler of the same mode -> (error, queued texts, direct texts)"""
    from loguru import logger
    e = ENQUEUE_OBJECTS[name]()
    try:
        raise e
    except BaseException as caught:
        e = caught
    out_q, out_d = [], []
    logger.remove()
    b, d, c = mode
    h1 = logger.add(lambda m: out_q.append(str(m)), format="{message}", enqueue=True, catch=False, backtrace=b, diagnose=d, colorize=c)
    h2 = logger.add(lambda m: out_d.append(str(m)), format="{message}", enqueue=False, catch=False, backtrace=b, diagnose=d, colorize=c)
    err = None
    try:
        try:
            logger.opt(exception=e).error("M")
            logger.complete()
        except BaseException as x:
            if isinstance(x, (KeyboardInterrupt, SystemExit)):
                raise
            err = x
    finally:
        for h in (h1, h2):
            try:
                logger.remove(h)
            except ValueError:
                pass
    return err, out_q, out_d


def enqueue_judge(name, mode, err, out_q, out_d):
    if err is not None:
        return "oracle 3 (never fails): %s escaped from logging an exception (%s) to an enqueue=True handler: %r" % (
            type(err).__name__, name, err)
    if len(out_q) != 1 or len(out_d) != 1:
        return "oracle 3 (never fails): %d / %d reports reached the enqueue=True / plain sink for an exception (%s)" % (
            len(out_q), len(out_d), name)
    if out_q != out_d:
        return "the enqueue=True handler reports an exception (%s) differently from the plain handler of the same mode" % name
    return None


SLICE_BOUNDS = [None, -7, -6, -5, -4, -2, -1, 0, 1, 2, 4, 5, 6, 7, 10 ** 9, -10 ** 9]


def slice_grid():
    return [(lo, hi, n) for n in (0, 1, 5) for lo in SLICE_BOUNDS for hi in SLICE_BOUNDS]


# ----------------------------------------------------------------------------- F12 witness + corpus
def deep_chain(n, attr):
    prev = None
    for i in range(n):
        e = ValueError(i)
        if prev is not None:
            setattr(e, attr, prev)
        prev = e
    return prev


def log_object(exc, mode=(False, False, False)):
    from loguru import logger
    out = []
    logger.remove()
    hid = logger.add(lambda m: out.append(str(m)), format="{message}", backtrace=mode[0], diagnose=mode[1],
                     colorize=mode[2], catch=False)
    try:
        logger.opt(exception=exc).error("M")
    finally:
        logger.remove(hid)
    return out[0]


def probe_f12(ctx):
    for attr in ("__cause__", "__context__"):
        e = deep_chain(1200, attr)
        ctx.case(("witness", "F12", attr))
        try:
            ref = "".join(traceback.format_exception(type(e), e, None))
        except RecursionError:
            ctx.note("traceback.format_exception itself hit RecursionError on the F12 witness")
            continue
        try:
            got = log_object(e)
        except RecursionError:
            ctx.violation("a %s chain of 1200 exceptions makes the formatter raise RecursionError "
                          "(traceback.format_exception renders %d lines)" % (attr, len(ref.split("\n"))),
                          {"stream": "witness", "witness": "F12", "attr": attr, "n": 1200}, key=F12_KEY)
            continue
        if got[2:] != ref:
            ctx.violation("deep %s chain is rendered differently from traceback.format_exception" % attr,
                          {"stream": "witness", "witness": "F12", "attr": attr, "n": 1200})


def corpus_dir():
    return os.path.join(core.VERIF, "corpus", "C13")


def run_corpus(ctx, lines, pending):
    d = corpus_dir()
    for fn in sorted(os.listdir(d)) if os.path.isdir(d) else []:
        if not fn.endswith(".json"):
            continue
        c = json.load(open(os.path.join(d, fn)))
        genfile = "/tmp/c13_corpus_%s.py" % fn[:-5]
        for entry in c.get("entries", ENTRIES):
            for limit in c.get("limits", [None]):
                rep = {"stream": "corpus", "file": fn, "entry": entry, "limit": limit}
                outs, heap, exc_info, err = run_case(c["source"], genfile, entry, limit)
                ctx.case(("corpus", fn, entry, limit), nontrivial=True)
                ctx.stat("corpus")
                judge_case(ctx, rep, c["source"], genfile, entry, limit, outs, heap, exc_info, err, lines, pending)
                linecache.cache.pop(genfile, None)
                for must in c.get("must_contain", []):
                    if not any(must in ANSI.sub("", t) for t in outs.values()):
                        ctx.violation("corpus %s: %r missing from every report" % (fn, must), dict(rep, oracle="corpus"))


# ----------------------------------------------------------------------------- main
def gen_case(seed):
    rng = core.Rng(seed)
    p = Prog(rng, max_funcs=rng.choice([4, 8, 14, 20]))
    src = p.source()
    return src, p.features


SEPS = ["\n", "\r\n", "\r", "\x0b", "\x0c", "\u2028", "\x00", "\t", "\x1b[0m"]


def val_grid(rng):
    """(kind, lines, width, separator index): repr = `lines` pieces of `width` characters joined by a separator"""
    grid = []
    for n in [0, 1, 3, 124, 125, 126, 127, 128, 129, 130, 131, 200, 5000]:
        grid.append(("ok", 1, n, 0))
        grid.append(("raise", 1, n, 0))
    for lines, width in [(2, 63), (2, 64), (3, 42), (5, 30), (40, 200), (129, 0), (130, 0), (200, 1), (5000, 30),
                         (20000, 1), (300, 127), (2, 128), (2, 5000)]:
        for sep in (0, 1):
            grid.append(("ok", lines, width, sep))
    for _ in range(40):
        grid.append(("ok", rng.choice([1, 2, 3, 7, 50, 400, 3000]), rng.choice([0, 1, 2, 30, 64, 127, 128, 129, 1000]),
                     rng.below(len(SEPS))))
    return grid


def val_object(spec):
    kind, lines, width, sep = spec
    if kind == "raise":
        T = type("T" * max(width, 1), (), {"__repr__": lambda self: 1 / 0})
        return T(), None, "T" * max(width, 1)
    text = SEPS[sep].join(["\u00e9" * width] * lines)
    R = type("R", (), {"__repr__": lambda self: text})
    return R(), text, "R"


def run(ctx):
    rng = ctx.rng
    drv = core.Driver(DRIVER)
    boost = 3 if getattr(ctx, "search_boost", False) else 1
    lines, pending = [], []
    old_limit = sys.getrecursionlimit()

    probe_f12(ctx)
    run_corpus(ctx, lines, pending)

    nprog = ctx.n(260, 230) * boost
    std_lines, std_expect = [], []
    for i in range(nprog):
        seed = rng.next()
        src, features = gen_case(seed)
        all_entries = ENTRIES + shared_entries(seed) + indirect_entries(seed) + reraise_entries(seed) + \
            [("exc_true", "exc_method")[(seed >> 9) % 2], "tuple_next"] + copy_entries(seed)
        entries = [all_entries[i % 11]] if ctx.quick else all_entries
        all_limits = LIMITS + MORE_LIMITS
        if ctx.quick:
            limits = [all_limits[(i // 3) % len(all_limits)]] if i % 2 else [None]
        else:
            limits = [None, (0, -1, -7)[i % 3], (1, 2)[i % 2], (3, 5, 1000, 4)[i % 4]]
        sinks = sink_kind(seed)
        ctx.stat("sinks:" + sinks)
        for entry in entries:
            for limit in limits:
                genfile = "/tmp/c13_gen_%x.py" % seed
                rep = {"stream": "gen", "case_seed": seed, "entry": entry, "limit": limit}
                outs, heap, exc_info, err = run_case(src, genfile, entry, limit, sinks)
                nontrivial = heap is not None and (len(heap) >= 2 or any(x["group"] is not None for x in heap)
                                                   or any(f.startswith("recursion") for f in features))
                ctx.case((seed, entry, limit), nontrivial=nontrivial, n=8)
                ctx.stat("entry:" + (entry if not entry.startswith("shared:") else "shared object, judged use " +
                                     ("decorator" if entry.endswith(":d") else "context manager")).split(":")[0])
                ctx.stat("limit:%s" % limit)
                if heap is not None:
                    ctx.stat("heap_size:%s" % (len(heap) if len(heap) < 6 else "6+"))
                    if any(x["group"] is not None for x in heap):
                        ctx.stat("with_group")
                    if shared_nodes(heap):
                        ctx.stat("with_shared_group_member")
                if i < 2 and entry == entries[0] and limit == limits[0] and heap is not None:
                    ctx.sample({"seed": seed, "entry": entry, "limit": limit, "features": sorted(features),
                                "plain_report": outs.get((False, False, False), "")[:600]})
                judge_case(ctx, rep, src, genfile, entry, limit, outs, heap, exc_info, err, lines, pending)
                # Py/Traceback.lean vs the real traceback module (group-free graphs; chain skeleton only)
                if heap is not None and err is None and not any(x["group"] is not None for x in heap):
                    ref = std_reference(exc_info, None, [])
                    labels = set(x["label"] for x in heap if x["label"])
                    skel = [p for p in parse_text(ref, labels, []) if p[0] in ("only", "cause", "context")]
                    std_lines.append(heap_line("std", heap, (False, False, False), None, False, MODEL_BUDGET))
                    std_expect.append((rep, heap, skel))
                linecache.cache.pop(genfile, None)
        for f in features:
            ctx.stat("feature:" + (f if f.startswith("class:") else f.split(":")[0]))
        if len(ctx.violations) > 30:
            break
    sys.setrecursionlimit(old_limit)

    # ---- formatValue grid (values_bounded on the implementation + model): single-line sizes around the limit,
    #      raising reprs, and reprs of many lines / other separators and control characters
    from loguru._better_exceptions import ExceptionFormatter
    fmtr = ExceptionFormatter()
    val_lines, val_exp = [], []
    for spec in val_grid(rng):
        v, r, ty = val_object(spec)
        ctx.case(("val",) + tuple(spec))
        vrep = {"stream": "val", "spec": list(spec), "oracle": "bounded"}
        try:
            got = fmtr._format_value(v)
        except Exception as e:
            ctx.violation("oracle 3 (never fails): _format_value lets %s escape from a raising repr" % type(e).__name__, vrep)
            continue
        if len(got) > 128:
            ctx.violation("oracle 4 (values bounded): _format_value gives %d characters on %d lines for a repr of %d "
                          "lines x %d characters" % (len(got), got.count("\n") + 1, spec[1], spec[2]), vrep)
        if spec[0] == "raise" and not got.startswith("<unprintable T"):
            ctx.violation("raising repr does not give the placeholder: %r" % got[:60], vrep)
        val_lines.append("val 128 %s %s" % ("!" if r is None else enc(r[:WIRE]), enc(ty[:WIRE])))
        val_lines.append("vlines 128 %s %s" % ("!" if r is None else enc(r[:WIRE]), enc(ty[:WIRE])))
        val_exp.append((spec, got))

    # ---- Exc.runUses: the flag each use of one catch object reports (model) = what the judged use was run as
    use_lines, use_exp = [], []
    for pat in sorted(set(m[0]["entry"] for m in pending if str(m[0].get("entry", "")).startswith("shared:"))):
        _s, prior, final = pat.split(":")
        kinds = "".join("d" if u in "dDX" else "c" for u in prior + final)
        use_lines.append("uses " + kinds)
        use_exp.append((pat, "ok " + "".join("1" if k == "d" else "0" for k in kinds)))
    # ---- synthetic stacks: `_extract_frames` itself against the property (direct) and `Exc.extractLoop` (model)
    syn_lines, syn_exp = run_synth(ctx, rng.fork("synth"), ctx.n(1500, 40000) * boost)
    sl_grid = slice_grid()
    sl_lines = ["slice %s %s %d" % ("n" if lo is None else lo, "n" if hi is None else hi, n) for lo, hi, n in sl_grid]
    # ---- the closing line: `__str__` of the exception object (never fails; standard unless a bare assert under diagnose)
    cl_lines, cl_exp = [], []
    for spec in closing_grid():
        ctx.case(("closing",) + tuple(map(str, spec)))
        appended, tok, problem = closing_run(spec)
        if problem:
            ctx.violation("closing line of %s%r with __str__ kind %r (raised=%s, source=%s, diagnose=%s): %s" % (
                spec[0], spec[2], spec[1], spec[3], spec[4], spec[5], problem),
                {"stream": "closing", "spec": list(spec), "oracle": "closing"})
            continue
        cl_lines.append("closing %d %d %d %d %s" % (spec[5], spec[3], spec[4] and spec[3], spec[0].startswith("Assert"), tok))
        cl_exp.append((spec, "ok %d" % appended))
    # ---- enqueue=True handlers: the record (with the exception) is pickled after the text is formatted
    for k, name in enumerate(sorted(ENQUEUE_OBJECTS)):
        for mode in (MODES if not ctx.quick else [MODES[(k + ctx.seed) % 8], MODES[0]]):
            ctx.case(("enqueue", name, mode), nontrivial=True)
            ctx.stat("enqueue")
            why = enqueue_judge(name, mode, *enqueue_run(name, mode))
            if why:
                ctx.violation(why, {"stream": "enqueue", "name": name, "mode": list(mode), "oracle": "enqueue"})
    # ---- `_format_list` itself: folding of repeated frames vs the standard library's and vs `Exc.formatListLoop`
    fl_rng = rng.fork("flist")
    fl_lines, fl_exp = [], []
    for _ in range(ctx.n(400, 6000)):
        spec = flist_spec(fl_rng)
        ctx.case(("flist", spec), nontrivial=len(spec) > 3)
        try:
            got, ref = flist_run(spec)
        except Exception as e:
            ctx.violation("oracle 3 (never fails): _format_list raised %r on the frame sequence %r" % (e, spec),
                          {"stream": "flist", "spec": spec, "oracle": "flist"})
            continue
        if got != ref:
            ctx.violation("oracle 1 (standard traceback): the frame sequence %r is folded as %r, traceback.StackSummary "
                          "folds it as %r" % (spec, " ".join(got), " ".join(ref)), {"stream": "flist", "spec": spec, "oracle": "flist"})
            continue
        fl_lines.append("fl " + (spec or "-"))
        fl_exp.append((spec, "ok" + "".join(" " + t for t in got)))
    out = drv.run(lines + std_lines + val_lines + use_lines + syn_lines + sl_lines + cl_lines + fl_lines)
    for (spec, want), o in zip(fl_exp, out[len(out) - len(fl_lines):] if fl_lines else []):
        ctx.evaluations += 1
        if o != want:
            ctx.broke("correspondence Exc.formatListLoop", "%r: impl %r model %r" % (spec, want, o))
            ctx.violation("_format_list and the model disagree on the frame sequence %r: impl %r, model %r" % (spec, want, o),
                          {"stream": "flist", "spec": spec, "oracle": "model"}, kind="correspondence")
            break
    out = out[:len(out) - len(fl_lines)] if fl_lines else out
    for (spec, want), o in zip(cl_exp, out[len(out) - len(cl_lines):] if cl_lines else []):
        ctx.evaluations += 1
        if o != want:
            ctx.broke("correspondence Exc.assertSuffix", "%r: impl %r model %r" % (spec, want, o))
            ctx.violation("closing line: implementation and model disagree for %r: impl %r, model %r" % (spec, want, o),
                          {"stream": "closing", "spec": list(spec), "oracle": "model"}, kind="correspondence")
            break
    off2 = len(lines) + len(std_lines) + len(val_lines) + len(use_lines)
    for (spec, got), o in zip(syn_exp, out[off2:]):
        ctx.evaluations += 1
        want = "ok" + "".join(" %d:%d" % (n, m) for n, m in got)
        if o != want:
            ctx.broke("correspondence Exc.extractLoop", "%r: impl %r model %r" % (spec, want, o))
            ctx.violation("_extract_frames and the model disagree on the synthetic stack %r: impl %r, model %r" % (
                spec[:8], want, o), {"stream": "synth", "spec": spec, "oracle": "model"}, kind="correspondence")
            break
    for (lo, hi, n), o in zip(sl_grid, out[off2 + len(syn_lines):]):
        ctx.evaluations += 1
        if o != "ok" + "".join(" %d" % i for i in list(range(n))[lo:hi]):
            ctx.broke("correspondence Py.slice", "range(%d)[%r:%r]: model %r" % (n, lo, hi, o))
            break
    for (pat, exp), o in zip(use_exp, out[len(lines) + len(std_lines) + len(val_lines):]):
        ctx.evaluations += 1
        if o != exp:
            ctx.broke("correspondence Exc.runUses", "%s: model %r, expected %r" % (pat, o, exp))
    nbad = 0
    per_mode = []
    for o in out[:len(lines)]:
        parts = o.split(" | ")
        per_mode += parts if len(parts) == 8 else [o] * 8
    for (mrep, heap, genfile, pieces, mode), o in zip(pending, per_mode):
        if not o.startswith("ok"):
            ctx.broke("correspondence Exc.fmt", "model answered %r for %r" % (o[:80], mrep))
            ctx.violation("model: %s, implementation rendered the exception" % o[:60], dict(mrep, oracle="model"),
                          kind="correspondence")
            nbad += 1
        else:
            mp = drop_foreign_values(model_pieces(o[3:].split(" ") if len(o) > 3 else [], heap), genfile, heap)
            ip = drop_foreign_values(pieces, genfile, heap)
            if not mode[1]:
                mp = [p for p in mp if p[0] != "val"]
            mp, ip = align_values(mp, ip)
            if mp != ip:
                k = next((j for j in range(min(len(mp), len(ip))) if mp[j] != ip[j]), min(len(mp), len(ip)))
                nbad += 1
                ctx.stat("disagreements")
                ctx.broke("correspondence Exc.fmt", "case %r piece %d: impl %r model %r" % (
                    mrep, k, ip[k] if k < len(ip) else None, mp[k] if k < len(mp) else None))
                ctx.violation("implementation and model disagree at piece %d: impl %r, model %r" % (
                    k, ip[k] if k < len(ip) else None, mp[k] if k < len(mp) else None), dict(mrep, oracle="model"),
                    kind="correspondence")
        if nbad > 10:
            break
    off = len(lines)
    for (rep, heap, skel), o in zip(std_expect, out[off:]):
        ctx.evaluations += 1
        ms = [p for p in model_pieces(o[3:].split(" ") if len(o) > 3 else [], heap) if p[0] in ("only", "cause", "context")]
        if ms != skel:
            ctx.broke("correspondence Py.Traceback", "case %r: traceback %r, transcription %r" % (rep, skel[:6], ms[:6]))
            break
    ctx.stat("std_transcription_checked", len(std_expect))
    off += len(std_lines)
    for (spec, got), o, o2 in zip(val_exp, out[off::2], out[off + 1::2]):
        if o2 != "ok %d %d" % (len(got.split("\n")), sum(len(l) for l in got.split("\n"))):
            ctx.broke("correspondence Exc.displayLines", "%r: impl %d lines, model %r" % (spec, len(got.split("\n")), o2))
        if o != "ok " + enc(got):
            ctx.broke("correspondence Exc.formatValue", "%r: impl %r model %r" % (spec, got[:40], o[:60]))
            ctx.violation("_format_value and model disagree for the repr %r" % (spec,),
                          {"stream": "val", "spec": list(spec), "oracle": "model"}, kind="correspondence")
    seen, uniq = set(), []
    for b in ctx.broken:
        if b["name"] not in seen:
            seen.add(b["name"])
            uniq.append(b)
    ctx.broken[:] = uniq


def replay(ctx, rep):
    r = rep["replay"]

    class Collect:
        def __init__(self):
            self.v, self.stats, self.traces_validated, self.evaluations = [], {}, 0, 0
            self.broken = []
        def violation(self, what, replay, key=None, kind="oracle"):
            self.v.append((what, replay, key))
        def stat(self, *a, **k): pass
        def case(self, *a, **k): pass
        def note(self, *a): pass
        def broke(self, *a): pass
        def sample(self, *a): pass

    c = Collect()
    lines, pending = [], []
    if r.get("stream") == "witness":
        probe_f12(c)
    elif r.get("stream") == "enqueue":
        err, out_q, out_d = enqueue_run(r["name"], tuple(r["mode"]))
        why = enqueue_judge(r["name"], tuple(r["mode"]), err, out_q, out_d)
        print("exception object: %s; handlers with (backtrace, diagnose, colorize) = %r, one enqueue=True, one plain" % (r["name"], r["mode"]))
        print("escaped:", repr(err), " reports:", len(out_q), "/", len(out_d))
        if why:
            print("violation:", why)
        print("REPRODUCED" if why else "not reproduced")
        return 1 if why else 0
    elif r.get("stream") == "flist":
        spec = r["spec"]
        got, ref = flist_run(spec)
        print("frame sequence (one digit per frame):", spec or "-")
        print("_format_list            :", " ".join(got))
        print("traceback.StackSummary  :", " ".join(ref))
        bad = got != ref
        if r.get("oracle") == "model":
            try:
                o = core.Driver(DRIVER).run(["fl " + (spec or "-")])[0]
                print("model                   :", o)
                bad = bad or o != "ok" + "".join(" " + t for t in got)
            except core.DriverError:
                print("model                   : (driver does not build against this tree)")
        print("REPRODUCED" if bad else "not reproduced")
        return 1 if bad else 0
    elif r.get("stream") == "closing":
        spec = r["spec"]
        spec[2] = tuple(spec[2])
        appended, tok, problem = closing_run(tuple(spec))
        print("exception %s%r, __str__ kind %r, raised=%s, source line available=%s, diagnose=%s, backtrace=%s" % tuple(spec))
        print("source appended to the closing line:", appended, " str(exc):", {"e": "empty", "s": "non-empty", "!": "raises"}.get(tok))
        bad = bool(problem)
        if problem:
            print("problem:", problem)
        elif r.get("oracle") == "model":
            try:
                o = core.Driver(DRIVER).run(["closing %d %d %d %d %s" % (spec[5], spec[3], spec[4] and spec[3],
                                                                        spec[0].startswith("Assert"), tok)])[0]
                print("model:", o)
                bad = o != "ok %d" % appended
            except core.DriverError:
                print("model: (driver does not build against this tree)")
        print("REPRODUCED" if bad else "not reproduced")
        return 1 if bad else 0
    elif r.get("stream") == "synth":
        spec = r["spec"]
        got, problem = synth_run(spec)
        want = synth_expected(spec)
        print("_extract_frames(backtrace=%s, is_first=%s, from_decorator=%s, limit=%s), diagnose=%s colorize=%s" % (
            spec[0], spec[3], spec[4], spec[5], spec[1], spec[2]))
        print("traceback frames (h = loguru's own file):", spec[6] or "-", " callers, innermost first:", spec[7] or "-")
        print("shown   :", got)
        print("expected:", want, "(traceback frames are numbered 1.., callers 1001..; True = catch point)")
        if problem:
            print("problem :", problem)
        try:
            print("model   :", core.Driver(DRIVER).run([synth_line(spec)])[0])
        except core.DriverError:
            print("model   : (driver does not build against this tree)")
        bad = bool(problem) or (got != want and (spec[3] or not spec[4]))
        if r.get("oracle") == "model" and not bad and got is not None:
            try:
                o = core.Driver(DRIVER).run([synth_line(spec)])[0]
                bad = o != "ok" + "".join(" %d:%d" % (n, m) for n, m in got)
            except core.DriverError:
                pass
        print("REPRODUCED" if bad else "not reproduced")
        return 1 if bad else 0
    elif r.get("stream") == "val":
        from loguru._better_exceptions import ExceptionFormatter
        spec = tuple(r["spec"])
        v, text, ty = val_object(spec)
        try:
            got = ExceptionFormatter()._format_value(v)
        except Exception as e:
            print("_format_value raised", repr(e))
            print("REPRODUCED")
            return 1
        print("repr: %s, %d pieces of %d characters joined by %r (%s characters)" % (
            spec[0], spec[1], spec[2], SEPS[spec[3]], "-" if text is None else len(text)))
        print("_format_value ->", len(got), "characters on", got.count("\n") + 1, "lines:", repr(got[:80]))
        exp = None if text is None else (text if len(text) <= 128 else text[:125] + "...")
        try:
            out = core.Driver(DRIVER).run(["val 128 %s %s" % ("!" if text is None else enc(text[:WIRE]), enc(ty[:WIRE]))])[0]
            print("model        ->", len(dec(out[3:])) if out.startswith("ok ") else out, "characters")
        except core.DriverError:
            print("model        -> (driver does not build against this tree)")
        bad = len(got) > 128 or (spec[0] == "raise" and not got.startswith("<unprintable")) or (exp is not None and got != exp)
        print("REPRODUCED" if bad else "not reproduced")
        return 1 if bad else 0
    else:
        if r.get("stream") == "corpus":
            cj = json.load(open(os.path.join(corpus_dir(), r["file"])))
            src, genfile = cj["source"], "/tmp/c13_corpus_%s.py" % r["file"][:-5]
        else:
            src, _f = gen_case(r["case_seed"])
            genfile = "/tmp/c13_gen_%x.py" % r["case_seed"]
        outs, heap, exc_info, err = run_case(src, genfile, r["entry"], r["limit"],
                                             "callable" if r.get("stream") == "corpus" else sink_kind(r["case_seed"]))
        judge_case(c, {k: r[k] for k in r if k not in ("mode", "oracle", "expected", "observed")}, src, genfile,
                   r["entry"], r["limit"], outs, heap, exc_info, err, lines, pending)
        print("---- program\n" + src)
        if "mode" in r and tuple(r["mode"]) in outs:
            print("---- report (backtrace, diagnose, colorize = %r)\n%s" % (r["mode"], ANSI.sub("", outs[tuple(r["mode"])])))
        if r.get("oracle") == "model" and pending:
            out = core.Driver(DRIVER).run(lines)
            per_mode = []
            for o in out:
                parts = o.split(" | ")
                per_mode += parts if len(parts) == 8 else [o] * 8
            for (mrep, hp, gf, pieces, mode), o in zip(pending, per_mode):
                if list(mode) != r.get("mode"):
                    continue
                mp = drop_foreign_values(model_pieces(o[3:].split(" ") if len(o) > 3 else [], hp), gf, hp)
                ip = drop_foreign_values(pieces, gf, hp)
                if not mode[1]:
                    mp = [p for p in mp if p[0] != "val"]
                mp, ip = align_values(mp, ip)
                print("implementation pieces:", ip)
                print("model pieces:         ", mp)
                if mp != ip:
                    c.v.append(("implementation and model disagree", mrep, None))
    want = r.get("oracle")
    hits = [v for v in c.v if want in (None, "model") or v[1].get("oracle") == want or r.get("stream") == "witness"]
    for what, _rp, key in hits[:5]:
        print("violation:", what, "[%s]" % key if key else "")
    print("REPRODUCED" if hits else "not reproduced")
    return 1 if hits else 0
