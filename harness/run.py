import importlib
import os
import sys
import traceback


def main():
    if len(sys.argv) < 2:
        print("usage: check Cxx [--tier quick|thorough] [--replay file]", file=sys.stderr)
        sys.exit(2)
    prop = sys.argv[1].upper()
    os.environ.pop("LOGURU_AUTOINIT", None)
    os.environ["LOGURU_VERIF"] = "1"
    try:
        from harness import core
        try:
            mod = importlib.import_module("harness." + prop.lower())
        except core.BINDING_ERRORS:
            tb = traceback.format_exc()
            if "loguru" not in tb:
                raise
            print(tb, file=sys.stderr)
            sys.exit(core.unbound(prop, sys.argv[2:], tb))
        core.main(mod, sys.argv[2:])
    except SystemExit:
        raise
    except BaseException:  # infrastructure error: never exit 1
        traceback.print_exc()
        sys.exit(2)


if __name__ == "__main__":
    main()
