"""Real multi-process stream of C03 (fork / spawn / forkserver / raw os.fork).  Importable by spawned children."""
import multiprocessing
import os
import signal
import sys
import threading
import time
import traceback


class _ForkProc:
    """a child created by a raw os.fork() (no multiprocessing bookkeeping: multiprocessing.current_process() is
    still the parent's object in the child), with the small part of the Process interface used below"""

    def __init__(self, target, args):
        self.target, self.args, self.pid, self.exitcode = target, args, None, None

    def start(self):
        pid = os.fork()
        if pid == 0:
            code = 0
            try:
                self.target(*self.args)
            except BaseException:
                traceback.print_exc()
                code = 1
            finally:
                os._exit(code)
        self.pid = pid

    def join(self, timeout=None):
        end = time.time() + (timeout or 0)
        while self.exitcode is None:
            pid, status = os.waitpid(self.pid, os.WNOHANG)
            if pid:
                self.exitcode = os.waitstatus_to_exitcode(status)
                return
            if timeout is not None and time.time() > end:
                return
            time.sleep(0.02)

    def is_alive(self):
        return self.exitcode is None

    def terminate(self):
        try:
            os.kill(self.pid, signal.SIGKILL)
            os.waitpid(self.pid, 0)
        except OSError:
            pass


# exception classes the reconstruction of an object on the reader's side can raise (`queue.get()` un-pickles the record
# with its `extra`): files that vanished, sockets, truncated nested pickles, missing modules ...
LOAD_ERRORS = {"OSError": OSError, "FileNotFoundError": FileNotFoundError, "ConnectionResetError": ConnectionResetError,
               "BrokenPipeError": BrokenPipeError, "PermissionError": PermissionError, "TimeoutError": TimeoutError,
               "EOFError": EOFError, "RuntimeError": RuntimeError, "ValueError": ValueError, "TypeError": TypeError,
               "KeyError": KeyError, "AttributeError": AttributeError, "ImportError": ImportError,
               "ModuleNotFoundError": ModuleNotFoundError, "MemoryError": MemoryError, "StopIteration": StopIteration,
               "AssertionError": AssertionError, "LookupError": LookupError, "RecursionError": RecursionError,
               "NotImplementedError": NotImplementedError, "ZeroDivisionError": ZeroDivisionError,
               "BufferError": BufferError}


def _raise_on_load(name):
    import pickle
    cls = pickle.UnpicklingError if name == "UnpicklingError" else LOAD_ERRORS[name]
    raise cls("the object cannot be rebuilt on the reader's side (%s)" % name)


class Unloadable:
    """pickles fine; un-pickling it raises the named exception (in the process that reads the queue)"""

    def __init__(self, name):
        self.name = name

    def __reduce__(self):
        return (_raise_on_load, (self.name,))


def poisoned(poison, proc_no, i):
    """is message i of process proc_no one whose record cannot be rebuilt by the worker?"""
    if not poison:
        return False
    who = poison.get("who", "both")
    if (who == "child" and proc_no == 0) or (who == "owner" and proc_no != 0):
        return False
    return i % poison["every"] == poison["every"] - 1


def _log_many(logger, tag, k, poison=None):
    proc_no = int(tag[1:].split("-")[0]) if tag.startswith("P") else 0
    for i in range(k):
        if poisoned(poison, proc_no, i):
            logger.bind(blob=Unloadable(poison["exc"])).info("%s-%d" % (tag, i))
        else:
            logger.info("%s-%d" % (tag, i))


def child_main(logger, n, nthr, k, do_remove, poison=None):
    ths = [threading.Thread(target=_log_many, args=(logger, "P%d-T%d" % (n, j), k, poison)) for j in range(nthr)]
    for t in ths:
        t.start()
    for t in ths:
        t.join()
    logger.complete()
    if do_remove:
        logger.remove()          # must be local to the child: the owner's worker keeps running
        logger.info("P%d-after-remove" % n)   # goes nowhere (handler removed in the child)


def parent_run(method, nproc, nthr, k, path, child_remove, repo, poison=None, default_context=False):
    if repo not in sys.path:
        sys.path.insert(0, repo)
    import loguru._logger as lg
    bad = []
    ctx = multiprocessing.get_context("fork" if method == "osfork" else method)
    logger = lg.Logger(core=lg.Core(), exception=None, depth=0, record=False, lazy=False, colors=False, raw=False,
                       capture=True, patchers=[], extra={})
    if default_context and method in ("fork", "osfork"):
        # no `context=`: loguru creates queue, event and lock from the `multiprocessing` module itself (fork children
        # inherit them by memory copy)
        logger.add(path, enqueue=True, format="{message}", catch=False)
    else:
        logger.add(path, enqueue=True, context=ctx, format="{message}", catch=False)
    mk = (lambda target, args: _ForkProc(target, args)) if method == "osfork" else \
        (lambda target, args: ctx.Process(target=target, args=args))
    procs = [mk(child_main, (logger, n + 1, nthr, k, child_remove, poison)) for n in range(nproc)]
    for p in procs:
        p.start()
    ths = [threading.Thread(target=_log_many, args=(logger, "P0-T%d" % j, k, poison)) for j in range(nthr)]
    for t in ths:
        t.start()
    for t in ths:
        t.join()
    note = "" if not poison else (" [every %d-th message of %s carries an `extra` object whose un-pickling raises %s: "
                                  "those are reported and skipped, nothing else may be lost]"
                                  % (poison["every"], poison.get("who", "both"), poison["exc"]))
    deadline = time.time() + 90          # for all children together
    for p in procs:
        p.join(max(2.0, deadline - time.time()))
        if p.is_alive():
            bad.append("child process did not finish within 90 s (%s, %d procs%s)%s"
                       % (method, nproc, ", no context= given" if default_context else "", note))
            p.terminate()
        elif p.exitcode != 0:
            bad.append("child process exit code %r" % (p.exitcode,))
    done = threading.Event()

    def fin():
        logger.complete()
        done.set()
    th = threading.Thread(target=fin, daemon=True)
    th.start()
    if not done.wait(60):
        bad.append("complete() in the owner did not return within 60 s" + note)
        return {"bad": bad}
    with open(path, encoding="utf8") as f:
        mid = f.read()
    expected = {"P%d-T%d-%d" % (n, j, i) for n in range(nproc + 1) for j in range(nthr) for i in range(k)
                if not poisoned(poison, n, i)}
    if not bad:
        missing = expected - set(mid.split("\n"))
        if missing:
            bad.append("after the children's complete() and the owner's complete(), %d messages are not in the "
                       "file, e.g. %r%s" % (len(missing), sorted(missing)[:3], note))
    logger.remove()
    with open(path, encoding="utf8") as f:
        text = f.read()
    if not text.endswith("\n") and text:
        bad.append("file does not end with a newline (torn record)")
    lines = text.split("\n")[:-1]
    if poison:
        # a record the worker cannot rebuild is reported and skipped; should it arrive nevertheless, that is no violation
        unl = {"P%d-T%d-%d" % (n, j, i) for n in range(nproc + 1) for j in range(nthr) for i in range(k) if poisoned(poison, n, i)}
        seen = [l for l in lines if l in unl]
        if len(seen) != len(set(seen)):
            bad.append("a message was written twice: %r" % sorted(set(x for x in seen if seen.count(x) > 1))[:3])
        lines = [l for l in lines if l not in unl]
    if sorted(lines) != sorted(expected):
        extra = [l for l in lines if l not in expected]
        bad.append("file content differs from the set of logged messages: %d lines, %d expected, unexpected %r%s"
                   % (len(lines), len(expected), extra[:3], note))
    last = {}
    for l in lines:
        if l in expected:
            tag, i = l.rsplit("-", 1)
            if last.get(tag, -1) >= int(i):
                bad.append("producer %s: message %s written out of order" % (tag, l))
                break
            last[tag] = int(i)
    return {"bad": bad}


def isolated_run(method, nproc, nthr, k, path, child_remove, repo, timeout=240, poison=None, default_context=False):
    """parent_run in a process of its own: a case in which some thread hangs for ever (a complete() that never
    returns keeps the logger lock, and every later os.fork() of the same process would then wait for it in
    acquire_locks()) cannot disturb the cases after it, and the whole case has a deadline."""
    import json
    import subprocess
    verif = os.path.dirname(os.path.dirname(os.path.abspath(__file__)))
    cfg = json.dumps([method, nproc, nthr, k, path, child_remove, repo, poison, default_context])
    env = dict(os.environ, PYTHONPATH=repo + os.pathsep + verif)
    try:
        p = subprocess.run([sys.executable, "-m", "harness.c03_child", cfg], cwd=verif, env=env, timeout=timeout,
                           stdout=subprocess.PIPE, stderr=subprocess.PIPE, text=True)
    except subprocess.TimeoutExpired:
        return {"bad": ["the multi-process run (%s, %d procs x %d threads x %d messages, child_remove=%s) did not finish "
                        "within %d s" % (method, nproc, nthr, k, child_remove, timeout)]}
    last = [l for l in p.stdout.splitlines() if l.startswith("RESULT ")]
    if not last:
        return {"bad": ["the multi-process run (%s) ended without a result (exit %s): %s"
                        % (method, p.returncode, p.stderr.strip()[-400:])]}
    return json.loads(last[-1][7:])


def exit_program(repo, path, nthr, k, how):
    """a program that logs through an enqueue=True handler with a slow sink and then simply ENDS (no remove(), no
    complete()): whatever was accepted must still be written - loguru drains the queue at interpreter exit"""
    if repo not in sys.path:
        sys.path.insert(0, repo)
    from loguru import logger
    out = open(path, "a", encoding="utf8", buffering=1)

    def slow(message):
        time.sleep(0.002)
        out.write(str(message))
    logger.add(slow, enqueue=True, format="{message}", catch=False)
    ths = [threading.Thread(target=_log_many, args=(logger, "T%d" % j, k)) for j in range(nthr)]
    for t in ths:
        t.start()
    for t in ths:
        t.join()
    if how == "sys_exit":
        sys.exit(3)
    if how == "exception":
        raise RuntimeError("the program ends with an unhandled exception")


if __name__ == "__main__" and len(sys.argv) > 2 and sys.argv[1] == "exit":
    import json
    exit_program(*json.loads(sys.argv[2]))
elif __name__ == "__main__":
    import json
    _a = json.loads(sys.argv[1])
    _r = parent_run(*_a)
    print("RESULT " + json.dumps(_r), flush=True)
    os._exit(0)          # do not wait for threads a failed case may have left behind
