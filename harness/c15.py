"""C15 – fork() at any moment leaves parent and child able to log (DESIGN §4 C15).

(i)  scheduler stream: the C02 programs with a `fork` operation whose at-fork hooks are the REAL
     acquire_locks/release_locks of loguru._locks_machinery, run at every position the scheduler can
     reach; at the fork point the would-be child's memory is inspected (every registered lock owned by
     the forking thread, no sink mid-write); traces are replayed on Conc.step (acceptor, fork included).
(ii) real os.fork() storms in a subprocess: threads log / add / remove (enqueue on and off, a slow sink,
     messages larger than the pipe buffer) while the main thread forks in a loop; every child checks
     locked() of every registered lock, logs through every handler, adds, removes, completes and exits 0
     under a watchdog.
"""
import json
import os
import subprocess
import sys

from harness import c02, core, sched

PROP = "C15"
LEAN_TARGETS = ["LoguruModel.Props.C15"]
AUDIT_FILE = "LoguruModel/Audit/C15.lean"
DRIVER = "C02"
RULE = ("(i) programs of 2-3 threads x 1-3 ops from log/add/remove/remove-all/fork over 1-3 handlers, fork "
        "positions = every scheduling point reachable by DFS with a preemption bound + PRNG schedules; (ii) real "
        "fork storms (threads x enqueue x message size); non-trivial = a fork overlapping another thread's "
        "operation (>= 1 preemption) or a storm with >= 20 forks; distinct by (program, schedule) / storm config")
TRUSTED = [
    "os.register_at_fork runs before/after_in_parent/after_in_child as documented (emulated in stream (i), real in (ii))",
    "locks inside sinks, multiprocessing and io (stderr's buffer lock) are outside loguru's control",
]
ASSUMPTIONS = ["fork is called from a Python thread that is not inside a logging call or a sink",
               "enqueue handlers with a bounded pipe: modelled by Conc/ForkQueue.lean (lock order handler locks "
               "before queue locks), exercised by the real storm"]

KINDS = ["log", "log", "fork", "fork", "add", "remove", "removeall", "complete"]


def stream_sched(ctx):
    rng = ctx.rng.fork("sched")
    boost = 3 if getattr(ctx, "search_boost", False) else 1
    lines, meta, nv = [], [], [0]
    hk_lines, hk_meta = [], []

    def judge(r, program, how):
        bad = c02.monitors(r)
        s = r.sched
        ctx.case((json.dumps(program, sort_keys=True), tuple(s.choices)), nontrivial=(s.preemptions >= 1))
        ctx.stat("sched:" + how)
        nforks = sum(1 for (_tn, k, _o, _v) in s.trace if k == "forked")
        ctx.stat("sched:fork_points", nforks)
        if bad and nv[0] < 5:
            nv[0] += 1
            ctx.violation(bad[0], {"stream": "sched", "program": program, "schedule": list(s.choices), "violations": bad[:5]})
        elif not bad and len(lines) < 400000:
            al = c02.acceptor_lines(r)
            if al:
                meta.append((program, list(s.choices), len(al)))
                lines.extend(al)
            if len(hk_lines) < 200000:
                from harness import c02_trace
                got = c02_trace.hooks_lines(r)
                if got is not None:
                    hk_lines.extend(got[0])
                    hk_meta.append((program, list(s.choices), got))

    cdir = os.path.join(core.VERIF, "corpus", "C15")
    if os.path.isdir(cdir):
        for fn in sorted(os.listdir(cdir)):
            c = json.load(open(os.path.join(cdir, fn)))
            judge(c02.Run(c["program"], sched.replay_chooser(c["schedule"])).execute(), c["program"], "corpus")
    for pi in range(ctx.n(25, 60) * boost):
        r1 = rng.fork("p%d" % pi)
        prog = c02.gen_program(r1, nthreads=r1.range(2, 3), kinds=KINDS)
        if not any(op[0] == "fork" for ops in prog["threads"] for op in ops):
            prog["threads"][0].append(["fork"])
        if pi < 2:
            ctx.sample({"stream": "sched", "program": prog})
        c02.dfs_schedules(prog, bound=ctx.n(2, 3), limit=ctx.n(35, 250),
                          on_run=lambda r, pre, prog=prog: judge(r, prog, "dfs"))
    for i in range(ctx.n(250, 4000) * boost):
        r2 = rng.fork("r%d" % i)
        prog = c02.gen_program(r2, maxops=3, kinds=KINDS)
        judge(c02.Run(prog, sched.random_chooser(r2, r2.choice([15, 35, 60]))).execute(), prog, "random")
    if lines:
        out = core.Driver(DRIVER).run(lines)
        pos = 0
        for program, schedule, n in meta:
            chunk = out[pos:pos + n]
            ctx.traces_validated += 1
            rej = [(i, o) for i, o in enumerate(chunk) if o.startswith("reject") or o.startswith("bad")]
            if rej:
                i, o = rej[0]
                ctx.broke("correspondence Conc.accepts (fork)", "event %d %r: %s\nprogram=%s schedule=%s"
                          % (i, lines[pos + i], o, json.dumps(program), json.dumps(schedule)))
                break
            pos += n
        ctx.stat("acceptor_events", len(lines))
    # second acceptor: the hooks' passes over the weak lock sets against add(), replayed on ForkHooks.step
    if hk_lines:
        from harness import c02_trace
        try:
            out = core.Driver("C02hooks").run(hk_lines)
        except core.DriverError as e:
            # the model no longer builds against the regenerated shapes (extractor failed closed / a flag changed
            # type): a broken tie, reported as such; the remaining streams still run and look for a failing input
            ctx.broke("driver:C02hooks", str(e)[-1500:])
            out, hk_meta = [], []
        pos = 0
        for program, schedule, (hl, hm) in hk_meta:
            chunk = out[pos:pos + len(hl)]
            pos += len(hl)
            ctx.stat("hooks_traces")
            ctx.stat("hooks_passes", sum(1 for l in hl if l.endswith("iterBegin")))
            ctx.stat("hooks_registrations", sum(1 for l in hl if l.endswith("register")))
            dis = c02_trace.hooks_judge(hl, hm, chunk)
            if dis:
                ctx.stat("hooks_disagreements")
                ctx.broke("correspondence ForkHooks.accepts",
                          "%s\nprogram=%s schedule=%s" % (dis[0], json.dumps(program), json.dumps(schedule)))
                break


def qfork_monitors(r):
    """one enqueue handler, a sink that refuses some messages (catch=True: the worker reports on sys.stderr), forks"""
    s = r.sched
    bad = []
    if s.deadlock:
        bad.append("deadlock: %r never finished" % (s.deadlock,))
        return bad
    for tn, e in s.errors:
        bad.append("internal error in %s: %s: %s" % (tn, type(e).__name__, e))
    for tn, res in r.fork_results:
        if isinstance(res, list):
            bad.extend("fork by %s: %s" % (tn, b) for b in res)
    puts = [val[4:] for (tn, kind, obj, val) in s.trace if kind == "put" and isinstance(val, str) and val.startswith("msg:")]
    fail = set(r.program.get("fail", ())) if r.program.get("fail") else set()
    poison = set(r.program.get("poison", ()))
    want = [m for m in puts if m not in fail and m not in poison]
    if s.finished and r.sink.items != want[:len(r.sink.items)]:
        bad.append("sink order %r is not the put order %r (refused: %r)" % (r.sink.items, want, sorted(fail)))
    failed = getattr(r.sink, "failed", [])
    if sorted(failed) != sorted(m for m in puts if m in fail and m not in poison)[:len(failed)]:
        bad.append("refused messages %r, expected %r" % (failed, [m for m in puts if m in fail and m not in poison]))
    return bad


def stream_qfork(ctx):
    """forks against the ENQUEUE WORKER: sink writes and the worker's error reports (a sink that raises, catch=True)"""
    from harness import c03
    rng = ctx.rng.fork("qfork")
    boost = 4 if getattr(ctx, "search_boost", False) else 1
    nv = [0]
    for pi in range(ctx.n(8, 20) * boost):
        if boost > 1 and nv[0]:
            break
        r0 = rng.fork("p%d" % pi)
        nlog = r0.range(1, 3)
        threads = [[["log"] for _ in range(nlog)] + ([["complete"]] if r0.chance(40) else []),
                   [["fork"]] + ([["log"]] if r0.chance(50) else [])]
        if r0.chance(35):
            threads.append([["log"], ["fork"]])
        msgs = ["t%d-%d" % (ti + 1, j) for ti, ops in enumerate(threads) for j, op in enumerate(ops) if op[0] == "log"]
        fail = [m for m in msgs if r0.chance(60)] or msgs[:1]
        # the multiprocessing context the handler was given: whatever its start method, a raw os.fork() of the
        # process must find the worker's lock protected
        # some messages reach the worker but cannot be un-pickled there (queue.get() raises): the worker reports that too
        poison = [m for m in msgs if m not in fail and r0.chance(30)]
        prog = {"procs": [0] * len(threads), "threads": threads, "fail": fail if r0.chance(70) else [], "catch": True,
                "poison": poison, "start_method": r0.choice(["fork", "fork", "spawn", "forkserver"])}
        if pi < 2:
            ctx.sample({"stream": "qfork", "program": prog})

        def on_run(r, pre=None, prog=prog):
            bad = qfork_monitors(r)
            s = r.sched
            ctx.case(("qfork", json.dumps(prog, sort_keys=True), tuple(s.choices)), nontrivial=(s.preemptions >= 1))
            ctx.stat("qfork:runs")
            ctx.stat("qfork:fork_points", sum(1 for (_tn, k, _o, _v) in s.trace if k == "forked"))
            ctx.stat("qfork:worker_reports", sum(1 for (_tn, k, _o, _v) in s.trace if k == "ewrite") // 2)
            if bad and nv[0] < 3:
                nv[0] += 1
                ctx.violation(bad[0], {"stream": "qfork", "program": prog, "schedule": list(s.choices),
                                       "violations": bad[:5]})
            return bad
        c03.dfs(prog, bound=2, limit=ctx.n(120, 600) * (4 if boost > 1 else 1), on_run=on_run)


def stream_storm(ctx):
    rng = ctx.rng.fork("storm")
    configs = [
        {"threads": 2, "enqueue": False, "big": False, "seconds": 1.0},
        {"threads": 2, "enqueue": True, "big": True, "seconds": 1.5},
        {"threads": 4, "enqueue": True, "big": False, "seconds": 1.0},
    ]
    if not ctx.quick:
        configs = [{"threads": t, "enqueue": e, "big": b, "seconds": 6.0}
                   for t in (2, 4, 8) for e in (False, True) for b in (False, True)]
    script = os.path.join(core.VERIF, "harness", "c15_storm.py")
    for cfg in configs:
        cfg = dict(cfg, seed=rng.below(10**6))
        env = dict(os.environ, PYTHONPATH=core.REPO)
        import shutil
        import tempfile
        base = tempfile.mkdtemp(prefix="verif_c15_")      # removed here even when the storm has to be killed
        try:
            p = subprocess.run(["/venv/bin/python", script, json.dumps(dict(cfg, base=base))], env=env,
                               stdout=subprocess.PIPE, stderr=subprocess.PIPE, text=True,
                               timeout=cfg["seconds"] * 6 + 60)
            last = [l for l in p.stdout.splitlines() if l.startswith("{")]
            res = json.loads(last[-1]) if last else {"bad": ["storm script produced no result (rc=%s): %s"
                                                             % (p.returncode, p.stderr[-500:])], "forks": 0}
            if "Exception ignored" in p.stderr or "Traceback" in p.stderr:
                res["bad"].append("an at-fork hook or a child raised: " + p.stderr.strip()[-600:])
        except subprocess.TimeoutExpired:
            res = {"bad": ["fork storm did not finish (deadlock in the parent): config %r" % (cfg,)], "forks": 0}
        finally:
            shutil.rmtree(base, ignore_errors=True)
        ctx.case(("storm", json.dumps(cfg, sort_keys=True)), nontrivial=(res.get("forks", 0) >= 20))
        ctx.stat("storm:forks", res.get("forks", 0))
        ctx.stat("storm:runs")
        ctx.sample({"stream": "storm", "config": cfg, "forks": res.get("forks", 0)}, limit=8)
        if res["bad"]:
            ctx.violation(res["bad"][0], {"stream": "storm", "config": cfg, "violations": res["bad"][:5]})


def run(ctx):
    stream_sched(ctx)
    stream_qfork(ctx)
    stream_storm(ctx)


def replay(ctx, rep):
    r = rep["replay"]
    if r.get("stream") == "sched":
        run_ = c02.Run(r["program"], sched.replay_chooser(r["schedule"])).execute()
        bad = c02.monitors(run_)
    elif r.get("stream") == "qfork":
        from harness import c03
        run_ = c03.Run(r["program"], sched.replay_chooser(r["schedule"])).execute()
        bad = qfork_monitors(run_)
        for e in run_.sched.trace[-30:]:
            print("   ", e)
    else:
        env = dict(os.environ, PYTHONPATH=core.REPO)
        p = subprocess.run(["/venv/bin/python", os.path.join(core.VERIF, "harness", "c15_storm.py"),
                            json.dumps(r["config"])], env=env, stdout=subprocess.PIPE, text=True, timeout=300)
        last = [l for l in p.stdout.splitlines() if l.startswith("{")]
        bad = json.loads(last[-1])["bad"] if last else ["no result"]
    for b in bad:
        print("VIOLATED:", b)
    print("REPRODUCED" if bad else "not reproduced")
    return 1 if bad else 0
