"""C14 – serialize=True always yields one parseable JSON line mirroring the record (DESIGN §4 C14)."""
import collections
import datetime as pydt
import decimal
import fractions
import ipaddress
import threading
import uuid
import enum
import glob
import io
import json
import math
import os
import pathlib
import sys

from harness import core
from harness.core import enc, dec

PROP = "C14"
LEAN_TARGETS = ["LoguruModel.Props.C14"]
AUDIT_FILE = "LoguruModel/Audit/C14.lean"
DRIVER = "C14"
RULE = ("(histories: several records through ONE long-lived serialize=True handler – default / colorize False / True / "
        "callable format – interleaved with logger.level(name, icon=/color=) updates of levels already used, custom levels "
        "created on the way, patchers swapping record['level']; each record judged like a single case; non-trivial = the "
        "record's level name was already used earlier in the history.)  one case = one logging call on a real logger with a serialize=True handler (callable sink) and a twin "
        "non-serialising handler with the same format: message over an adversarial alphabet (all C0 controls, quote, "
        "backslash, LF/CR, U+0085/U+2028/U+2029, astral, markup), extra built by bind/contextualize/patch/kwargs from "
        "nested lists/tuples/dicts of None/bool/int (huge)/float (nan, inf, extremes)/str/bytes/datetime/timedelta/"
        "Decimal/set/Path/Enum/user objects (3 % with a raising __str__), with or without exception; judged by the "
        "direct oracle (single line, json.loads, field-by-field against message.record, twin text) and compared "
        "char-for-char with the Lean model; plus string-level streams encodeStr/decodeStr/dumps/loads against "
        "CPython's json.  non-trivial = message or extra contains a character needing an escape, a non-ASCII "
        "character, an opaque object, a nested container or an exception; distinct by (message, wire form of the record).  "
        "Round 5: nested dictionary keys are str / int / float / bool / None / int & float subclasses (json coerces them) and, at "
        "1 %, tuple / bytes / frozenset / object keys (known finding F33); containers up to 14 levels deep; exception classes with "
        "adversarial __name__ and with a raising __str__; histories also RENAME the current thread / process between records and "
        "reuse thread / process ids and file paths with other names; catch histories: 3-6 calls on one serialize=True handler "
        "created with catch=True or catch=False, ~40 % of the records unserialisable (never lost silently: sink messages, the "
        "exception reaching the caller and the stderr reports are counted); sink cases: 6-10 calls into a serialize=True FILE sink "
        "(half enqueue=True), the file read back line by line; threads cases: 4 threads x 60 calls through one handler with a "
        "1 us switch interval; big cases: messages of up to 70 000 characters; multi cases: ONE call dispatched to 2-3 "
        "serialize=True handlers (static and dynamic format) whose filters / format functions / sinks edit the SHARED record "
        "(extra set / deleted, message, function): each handler's line is judged against a snapshot of the record taken when "
        "ITS sink received it; non-trivial = a later handler after an edit")
TRUSTED = [
    "Py/JsonStr.lean + Json.dumps/toJson are a model of CPython's json encoder (modelled, not verified): tied by the "
    "streams esc/dec/dumps/loads against json.dumps/json.loads on every run",
    "harness classification of Python values by type (None/bool/int/float/str/list|tuple/dict/other=opaque) and of "
    "dictionary keys (str/float/True|False|None/int/other, in the order of encoder_listencode_dict's tests) mirrors "
    "json.encoder's dispatch; float tokens are float.__repr__ as printed by Python",
    "str(obj) of opaque objects, the formatted text and the record's field values are inputs of the model",
]
ASSUMPTIONS = ["no lone surrogates in any text", "extra values acyclic; top-level extra keys are str; nested dictionary keys are "
               "str/int/float/bool/None (any other key type: known finding F33, reported with its key)",
               "ints below CPython's int->str digit limit (sys.get_int_max_str_digits(), 4300 by default)",
               "float repr is an opaque token"]

FIELDS = ["elapsed", "elapsedSeconds", "exception", "extra", "fileName", "filePath", "function", "levelIcon",
          "levelName", "levelNo", "line", "message", "module", "name", "processId", "processName", "threadId",
          "threadName", "time", "timeTimestamp"]


# ----------------------------------------------------------------------------- wire encoding of values
class Outside(Exception):
    """the value is outside the property's quantifier (non-str key, lone surrogate …)"""


def float_tok(v):
    if v != v:
        return "NaN"
    if v == math.inf:
        return "Infinity"
    if v == -math.inf:
        return "-Infinity"
    return float.__repr__(v)


def has_surrogate(s):
    return any(0xD800 <= ord(c) <= 0xDFFF for c in s)


def wire(v, table, out):
    """append the wire tokens of v as json's encoder would classify it; opaque objects go to table"""
    if v is None:
        out.append("n")
    elif v is True:
        out.append("T")
    elif v is False:
        out.append("F")
    elif isinstance(v, str):
        if has_surrogate(v):
            raise Outside("surrogate")
        out.append("s" + enc(str.__str__(v)))
    elif isinstance(v, int):
        out.append("i" + int.__repr__(v))
    elif isinstance(v, float):
        out.append("d" + enc(float_tok(v)))
    elif isinstance(v, (list, tuple)):
        out.append("l%d" % len(v))
        for x in v:
            wire(x, table, out)
    elif isinstance(v, dict):
        out.append("m%d" % len(v))
        for k, x in v.items():
            out.append(wire_key(k, table))
            wire(x, table, out)
    else:
        out.append("o%d" % len(table))
        try:
            s = str(v)
            if has_surrogate(s):
                raise Outside("surrogate")
            table.append(enc(s))
        except Outside:
            raise
        except Exception as e:  # noqa
            table.append("!" + canon_err(e))


def key_class(k):
    """how `encoder_listencode_dict` classifies a dictionary key (order of its tests): 's' str, 'd' float,
    'T'/'F'/'n' the three constants, 'i' int, 'o' anything else (no rule: TypeError unless skipkeys)"""
    if isinstance(k, str):
        return "s"
    if isinstance(k, float):
        return "d"
    if k is True:
        return "T"
    if k is False:
        return "F"
    if k is None:
        return "n"
    if isinstance(k, int):
        return "i"
    return "o"


def key_text(k):
    """the JSON key json.dumps writes for a key that has a rule"""
    c = key_class(k)
    return {"s": lambda: str.__str__(k), "d": lambda: float_tok(k), "T": lambda: "true", "F": lambda: "false",
            "n": lambda: "null", "i": lambda: int.__repr__(k)}[c]()


def wire_key(k, table):
    c = key_class(k)
    if c == "s":
        if has_surrogate(k):
            raise Outside("surrogate")
        return "k" + enc(str.__str__(k))
    if c == "d":
        return "Kd" + enc(float_tok(k))
    if c == "i":
        return "Ki" + int.__repr__(k)
    if c in "TFn":
        return "K" + c
    return "Ko%d" % len(type(k).__name__)


def has_other_key(v):
    """a dictionary key json has no rule for, anywhere in v"""
    if isinstance(v, dict):
        return any(key_class(k) == "o" or has_other_key(x) for k, x in v.items())
    if isinstance(v, (list, tuple)):
        return any(has_other_key(x) for x in v)
    return False


def sort_unmodelled(v):
    """dicts whose `sorted(items)` the model does not carry: two or more number keys (numeric order of float
    tokens) or two or more keys without a rule (their mutual comparability is unknown)"""
    if isinstance(v, dict):
        cl = [key_class(k) for k in v]
        if len(cl) >= 2 and (all(c in "dTFi" for c in cl) or sum(1 for c in cl if c == "o") >= 2):
            return True
        return any(sort_unmodelled(x) for x in v.values())
    if isinstance(v, (list, tuple)):
        return any(sort_unmodelled(x) for x in v)
    return False


def canon_err(e):
    k = core.err_kind(e)
    return "Other" if k.startswith("Other") else k


_WIRE_LAST = [None, None]


def wire_record(record):
    """wire tokens of the record as `_serialize_record` reads it (FIELDS order) + the str() table.
    (The last result is kept for the same record OBJECT: a record is judged several times once the call is over.)"""
    if _WIRE_LAST[0] is record:
        return _WIRE_LAST[1]
    res = _wire_record(record)
    _WIRE_LAST[0], _WIRE_LAST[1] = record, res
    return res


def _wire_record(record):
    table, out = [], []
    exc = record["exception"]
    for f in FIELDS:
        if f == "elapsed":
            wire(record["elapsed"], table, out)
        elif f == "elapsedSeconds":
            wire(record["elapsed"].total_seconds(), table, out)
        elif f == "exception":
            if exc is None:
                out.append("x0")
            else:
                out.append("x1")
                out.append("N" if exc.type is None else "s" + enc(exc.type.__name__))
                wire(exc.value, table, out)
                out.append("T" if bool(exc.traceback) else "F")
        elif f == "extra":
            wire(record["extra"], table, out)
        elif f == "fileName":
            wire(record["file"].name, table, out)
        elif f == "filePath":
            wire(record["file"].path, table, out)
        elif f == "levelIcon":
            wire(record["level"].icon, table, out)
        elif f == "levelName":
            wire(record["level"].name, table, out)
        elif f == "levelNo":
            wire(record["level"].no, table, out)
        elif f == "processId":
            wire(record["process"].id, table, out)
        elif f == "processName":
            wire(record["process"].name, table, out)
        elif f == "threadId":
            wire(record["thread"].id, table, out)
        elif f == "threadName":
            wire(record["thread"].name, table, out)
        elif f == "time":
            wire(record["time"], table, out)
        elif f == "timeTimestamp":
            wire(record["time"].timestamp(), table, out)
        else:
            wire(record[f], table, out)
    return table, out


def value_line(v, ea=False, default=True, sort=False, skip=False, nan=True):
    table, out = [], []
    wire(v, table, out)
    return "dumps %d %d %d %d %d %d %s" % (int(ea), int(default), int(sort), int(skip), int(nan), len(table),
                                           " ".join(table + out))


# ----------------------------------------------------------------------------- independent expectations
def expect_json(v):
    """what json.loads must give back for v according to the property: JSON types as themselves
    (tuples as lists), everything else rendered with str()"""
    if v is None or v is True or v is False:
        return v
    if isinstance(v, str):
        return str.__str__(v)
    if isinstance(v, int):
        return int(int.__repr__(v))
    if isinstance(v, float):
        return float(v)
    if isinstance(v, (list, tuple)):
        return [expect_json(x) for x in v]
    if isinstance(v, dict):
        d = {}
        for k, x in v.items():          # keys with a rule are coerced (int -> decimal, float -> repr, True/False/None ->
            d[key_text(k) if key_class(k) != "o" else str(k)] = expect_json(x)   # true/false/null); colliding texts: the later item wins, as json.loads does
        return d
    return str(v)


def dropped_member(parsed, orig, path="extra"):
    """for values with dictionary keys json has no rule for: whatever text such a key is rendered with, every item of
    every dictionary must still be there (a member silently dropped is data lost).  Returns a description or None."""
    if isinstance(orig, dict):
        if not isinstance(parsed, dict):
            return "%s is no longer an object" % path
        ruled = {key_text(k) for k in orig if key_class(k) != "o"}
        n_other = sum(1 for k in orig if key_class(k) == "o")
        if len(parsed) < len(ruled) + (1 if n_other else 0):
            return "%s has %d members, the record's own dictionary has %d items (%d with a key that is not str/int/float/bool/None): dropped" % (
                path, len(parsed), len(orig), n_other)
        for k, x in orig.items():
            if key_class(k) != "o" and key_text(k) in parsed and sum(1 for k2 in orig if key_class(k2) != "o" and key_text(k2) == key_text(k)) == 1:
                d = dropped_member(parsed[key_text(k)], x, path + "[%r]" % (k,))
                if d:
                    return d
        return None
    if isinstance(orig, (list, tuple)):
        if not isinstance(parsed, list) or len(parsed) != len(orig):
            return "%s: array length differs" % path
        for i, (a, b) in enumerate(zip(parsed, orig)):
            d = dropped_member(a, b, path + "[%d]" % i)
            if d:
                return d
    return None


def jeq(a, b):
    """deep equality of parsed JSON: types must agree (1 != 1.0 != True), NaN equals NaN, dict order too"""
    if type(a) is not type(b):
        return False
    if isinstance(a, float):
        return (a != a and b != b) or (a == b and math.copysign(1, a) == math.copysign(1, b))
    if isinstance(a, list):
        return len(a) == len(b) and all(jeq(x, y) for x, y in zip(a, b))
    if isinstance(a, dict):
        return list(a.keys()) == list(b.keys()) and all(jeq(a[k], b[k]) for k in a)
    return a == b


# ----------------------------------------------------------------------------- generators
CONTROLS = [chr(i) for i in range(0x20)] + ["\x7f"]
BREAKS = ["\n", "\r", "\r\n", "\x0b", "\x0c", "\x1c", "\x1d", "\x1e", "\x85", "\u2028", "\u2029"]
SPECIAL = ['"', "\\", "/", "'", "\\n", "\\u0041", "\\\\", '\\"', "\x1b[31m", "{", "}", "{}", "<red>", "</red>", "<", ":", ",",
           " ", "[", "]", "null", "NaN", "-", "1e5", "\ufeff", "\u200b"]
NONASCII = ["\xe9", "\xdf", "\xa0", "\u0100", "\u07ff", "\u0800", "\u20ac", "\u4e2d", "\ud7ff", "\ue000", "\ufffd", "\ufffe", "\uffff",
            "\U00010000", "\U0001f600", "\U0001f41e", "\U000e0001", "\U0010ffff", "e\u0301", "\u202e"]
PLAIN = list("abcXYZ019 _-.")


def gen_text(rng, maxlen=12):
    n = rng.choice([0, 1, 1, 2, 3, 5, 8, maxlen])
    parts = []
    for _ in range(n):
        k = rng.below(10)
        if k < 2:
            parts.append(rng.choice(CONTROLS))
        elif k < 4:
            parts.append(rng.choice(BREAKS))
        elif k < 6:
            parts.append(rng.choice(SPECIAL))
        elif k < 8:
            parts.append(rng.choice(NONASCII))
        else:
            parts.append(rng.choice(PLAIN))
    return "".join(parts)


class Obj:
    def __init__(self, text):
        self.text = text

    def __str__(self):
        return self.text

    def __repr__(self):
        return "Obj(%r)" % self.text


class BadStr:
    def __init__(self, kind):
        self.kind = kind

    def __str__(self):
        raise {"V": ValueError, "T": TypeError, "K": KeyError, "R": RuntimeError, "Z": ZeroDivisionError}[self.kind]("no str")

    def __repr__(self):
        return "BadStr(%r)" % self.kind


class Colour(enum.Enum):
    RED = 1
    GREEN = "g\n"


class IntE(enum.IntEnum):
    A = 7


class StrSub(str):
    pass


class ListSub(list):
    pass


class DictSub(dict):
    pass


class IntF(enum.IntFlag):
    A = 1
    B = 2


Point = collections.namedtuple("Point", "x y")


class FloatSub(float):
    pass


INTS = [0, 1, -1, 7, 255, 2**31, -2**31, 2**53 + 1, 2**63, 2**64, -2**64, 10**18, 10**40, -10**100 + 1, 10**400 + 7,
        -(10**1000), 9 * 10**4000]
FLOATS = [0.0, -0.0, 1.0, 1.5, -2.25, 0.1, 1e-7, 1e16, 1e22, 1.7976931348623157e308, 5e-324, 2.2250738585072014e-308,
          1e-5, 123456789.123456789, -1e100, math.nan, math.inf, -math.inf, 1e15, 3.141592653589793, 1 / 3]


def gen_leaf(rng, stats, allow_bad=True):
    k = rng.below(24)
    if k == 0:
        stats("leaf:none"); return None
    if k == 1:
        stats("leaf:bool"); return rng.choice([True, False])
    if k in (2, 3):
        stats("leaf:int"); return rng.choice(INTS) if rng.chance(60) else rng.range(-10**6, 10**6)
    if k in (4, 5):
        stats("leaf:float")
        return rng.choice(FLOATS) if rng.chance(70) else (rng.range(-10**9, 10**9) / rng.choice([1, 3, 7, 1000, 10**12]))
    if k in (6, 7, 8, 9):
        stats("leaf:str"); return gen_text(rng)
    if k == 10:
        stats("leaf:bytes"); return gen_text(rng, 6).encode("utf8", "replace")
    if k == 11:
        stats("leaf:datetime")
        return pydt.datetime(rng.range(1, 9999), rng.range(1, 12), rng.range(1, 28), rng.range(0, 23), rng.range(0, 59),
                             rng.range(0, 59), rng.choice([0, 1, 999999]),
                             tzinfo=rng.choice([None, pydt.timezone.utc, pydt.timezone(pydt.timedelta(seconds=-3661))]))
    if k == 12:
        stats("leaf:timedelta"); return pydt.timedelta(days=rng.range(-3, 400), microseconds=rng.range(0, 10**7))
    if k == 13:
        stats("leaf:decimal"); return decimal.Decimal(rng.choice(["1.10", "NaN", "-Infinity", "1E+30", "0.000001"]))
    if k == 14:
        stats("leaf:set"); return rng.choice([set(), frozenset([rng.range(0, 9)]), {gen_text(rng, 3)}])
    if k == 15:
        stats("leaf:path"); return pathlib.PurePosixPath("/tmp/" + (gen_text(rng, 4).replace("\x00", "") or "x"))
    if k == 16:
        stats("leaf:enum"); return rng.choice([Colour.RED, Colour.GREEN, IntE.A])
    if k in (17, 18):
        stats("leaf:object"); return Obj(gen_text(rng))
    if k == 19:
        stats("leaf:complex")
        return rng.choice([1j, complex(1, -2), range(3), Ellipsis, NotImplemented, int, len, Point(1, "a\n"),
                           collections.OrderedDict([("b", 1), ("a", (2,))]), collections.defaultdict(list, {"k": [None]}),
                           collections.UserDict({"u": 1}), collections.deque([1, "x"]), fractions.Fraction(1, 3),
                           uuid.UUID(int=rng.range(0, 2**64)), ipaddress.ip_address("::1"), IntF.A | IntF.B, ListSub([1, [2]]),
                           DictSub({"d": 1.5}), bytearray(b"\x00\xff"), collections.Counter("aab")])
    if k == 20:
        stats("leaf:subclass"); return rng.choice([StrSub(gen_text(rng, 4)), FloatSub(2.5), FloatSub("nan")])
    if k == 21:
        stats("leaf:exception"); return rng.choice([ValueError(gen_text(rng, 4)), KeyError("k\n"), OSError(2, "x")])
    if k == 22 and allow_bad and rng.chance(40):
        stats("leaf:badstr"); return BadStr(rng.choice("VTKRZ"))
    stats("leaf:date"); return pydt.date(rng.range(1, 9999), rng.range(1, 12), rng.range(1, 28))


def gen_value(rng, stats, depth=0):
    k = rng.below(10)
    if depth == 0 and rng.chance(3):
        return gen_deep(rng, stats)
    if depth >= 3 or k < 6:
        return gen_leaf(rng, stats)
    n = rng.choice([0, 1, 2, 3, 5])
    if k == 6:
        stats("node:list"); return [gen_value(rng, stats, depth + 1) for _ in range(n)]
    if k == 7:
        stats("node:tuple"); return tuple(gen_value(rng, stats, depth + 1) for _ in range(n))
    stats("node:dict")
    return {gen_dict_key(rng, stats): gen_value(rng, stats, depth + 1) for _ in range(n)}


def gen_deep(rng, stats):
    """a chain of containers 5–14 levels deep (lists, tuples, dicts with str or number keys), a leaf at the bottom"""
    stats("node:deep")
    v = gen_leaf(rng, stats)
    for _ in range(rng.range(5, 14)):
        k = rng.below(4)
        if k == 0:
            v = [v]
        elif k == 1:
            v = (gen_leaf(rng, stats, allow_bad=False), v)
        elif k == 2:
            v = {gen_key(rng): v}
        else:
            v = {gen_dict_key(rng, stats, other=False): v, "z": None}
    return v


class KeyObj:
    def __repr__(self):
        return "KeyObj()"


NUM_KEYS = [0, 1, -1, 7, 10, 9, 2**64, -10**30, 1.5, -0.0, 1e22, 1e-7, math.nan, math.inf, -math.inf, True, False, None,
            IntE.A, FloatSub(2.5)]
OTHER_KEYS = [(1, 2), (), ("a", None), b"k", b"", frozenset([1]), KeyObj(), Colour.RED, pydt.date(2020, 1, 2), 1j, Obj("k")]


def gen_dict_key(rng, stats, other=True):
    """a key of a NESTED dictionary: mostly str; int / float / bool / None / int & float subclasses (json coerces
    them); rarely a key json has no rule for (tuple, bytes, frozenset, object …: outside the property's quantifier,
    kept for the model-vs-CPython stream)"""
    k = rng.below(100)
    if k < 78:
        return gen_key(rng)
    if k < 99 or not other:
        stats("key:scalar-non-str")
        return rng.choice(NUM_KEYS) if rng.chance(80) else rng.choice([rng.range(-10**6, 10**6), rng.choice(INTS), rng.choice(FLOATS)])
    stats("key:no-rule")
    return rng.choice(OTHER_KEYS)


def gen_key(rng):
    return rng.choice(["k", "a", "b", "key", "", " ", "a b", "\xe9", "\n", '"', "\\", "\u2028", "\U0001f600", "text", "record",
                       "message", "x" * 3, gen_text(rng, 3)])


FORMATS = [("{message}", "{message}"), ("{level.name}|{message}", "{level.name}|{message}"),
           ("<red>{message}</red>", "{message}"), ("{level.no}:{line}:{message}", "{level.no}:{line}:{message}"),
           ("{message} {extra}", "{message} {extra}"), ("<b><green>{level.icon}</green></b> {message}\r", "{level.icon} {message}\r"),
           ("{time:YYYY}|{name}|{message}", "{time:YYYY}|{name}|{message}"), ("", "")]


TIMEDELTAS = [pydt.timedelta(0), pydt.timedelta(days=1), pydt.timedelta(days=1, seconds=5, microseconds=250000),
              pydt.timedelta(seconds=-1), pydt.timedelta(microseconds=-1), pydt.timedelta(days=-3, microseconds=1),
              pydt.timedelta(seconds=86399, microseconds=999999), pydt.timedelta(days=365, hours=6),
              pydt.timedelta(days=999999999), pydt.timedelta.max, pydt.timedelta.min, pydt.timedelta(days=-1),
              pydt.timedelta(weeks=2, seconds=1), pydt.timedelta(microseconds=1), pydt.timedelta(days=2, microseconds=999999)]


def gen_timedelta(rng):
    if rng.chance(60):
        return rng.choice(TIMEDELTAS)
    return pydt.timedelta(days=rng.range(-20000, 20000) if rng.chance(70) else 0, seconds=rng.range(0, 86399),
                          microseconds=rng.choice([0, 1, 250000, 999999, rng.range(0, 999999)]))


def gen_datetime(rng):
    from loguru._datetime import datetime as ldt
    tz = rng.choice([pydt.timezone.utc, pydt.timezone(pydt.timedelta(seconds=-3661)), pydt.timezone(pydt.timedelta(hours=14), "X\n")])
    k = rng.below(6)
    if k == 0:
        return ldt(1, 1, 2, 0, 0, 0, 0, tzinfo=tz)
    if k == 1:
        return ldt(9999, 12, 30, 23, 59, 59, 999999, tzinfo=tz)
    if k == 2:
        return ldt(1969, 12, 31, 23, 59, 59, 500000, tzinfo=pydt.timezone.utc)
    if k == 3:
        return pydt.datetime(rng.range(1971, 2200), rng.range(1, 12), rng.range(1, 28), rng.range(0, 23), 30, 15, rng.range(0, 999999))
    return ldt(rng.range(1, 9999), rng.range(1, 12), rng.range(1, 28), rng.range(0, 23), rng.range(0, 59), rng.range(0, 59),
               rng.choice([0, 1, 999999, rng.range(0, 999999)]), tzinfo=tz)


def gen_case(seed):
    """everything about one logging call, derived from one integer"""
    rng = core.Rng(seed)
    hist = {}

    def stats(name):
        hist[name] = hist.get(name, 0) + 1

    c = {"seed": seed, "hist": hist}
    c["message"] = gen_text(rng, 20) if not rng.chance(5) else rng.choice(["", "plain ascii", "\n", "\u2028", "\r\n"])
    c["format"] = rng.choice(FORMATS) if rng.chance(50) else FORMATS[0]
    c["level"] = rng.choice(["DEBUG", "INFO", "WARNING", "ERROR", "CRITICAL", "TRACE", "SUCCESS", "VERIF1", "VERIF2", 25, 0, 33])
    c["bind"] = {gen_key(rng): gen_value(rng, stats) for _ in range(rng.choice([0, 0, 1, 2, 3]))}
    c["ctx"] = {gen_key(rng): gen_value(rng, stats) for _ in range(rng.choice([0, 0, 0, 1, 2]))}
    c["kwargs"] = {rng.choice(["kw", "k", "other"]): gen_value(rng, stats)} if rng.chance(15) else {}
    pk = rng.below(12)
    c["patch"] = None
    if pk == 0:
        c["patch"] = ("extra", gen_key(rng), gen_value(rng, stats))
    elif pk == 1:
        c["patch"] = ("message", gen_text(rng))
    elif pk == 2:
        c["patch"] = ("function", gen_text(rng, 5))
    elif pk == 3:
        c["patch"] = ("name", None)
    elif pk == 4:
        c["patch"] = ("line", rng.choice(INTS))
    elif pk == 5:
        # fields that `_serialize_record` reads through a METHOD or an ATTRIBUTE of the record's object: a patcher
        # may put any object of the documented type there (elapsed of several days / negative, other instants …)
        stats("patch:elapsed")
        c["patch"] = ("elapsed", gen_timedelta(rng))
    elif pk == 6:
        stats("patch:time")
        c["patch"] = ("time", gen_datetime(rng))
    elif pk == 7:
        k = rng.below(3)
        stats("patch:" + ["file", "process", "thread"][k])
        c["patch"] = [("file", gen_text(rng, 5), "/" + gen_text(rng, 6)),
                      ("process", rng.choice(INTS + [None]), gen_text(rng, 4)),
                      ("thread", rng.choice(INTS + [None]), gen_text(rng, 4))][k]
    elif pk == 8:
        # a nested dictionary whose keys are not all str: int / float / bool / None keys are coerced by json
        stats("patch:extra-nested-non-str-keys")
        c["patch"] = ("extra", gen_key(rng), {gen_dict_key(rng, stats, other=False): gen_value(rng, stats, 1)
                                              for _ in range(rng.choice([1, 2, 3]))})
    ek = rng.below(12)
    c["exc"] = None
    if ek == 10:
        # an exception class whose __name__ needs escaping (type name is written under record.exception.type)
        stats("exc:weird-type-name")
        c["exc"] = ("raised", "Weird:" + (gen_text(rng, 5).replace("\x00", "") or "W"), gen_text(rng, 8))
    elif ek == 11 and rng.chance(50):
        # an exception whose str() raises: nothing can be rendered under record.exception.value
        stats("exc:str-raises")
        c["exc"] = ("raised", "BadStrExc", rng.choice("VTKRZ"))
    elif ek == 11:
        stats("exc:unraised-weird")
        c["exc"] = ("unraised", "Weird:" + (gen_text(rng, 3).replace("\x00", "") or "W"), gen_text(rng, 4))
    if ek == 0:
        c["exc"] = ("raised", rng.choice(["ValueError", "KeyError", "ZeroDivisionError", "Custom"]), gen_text(rng, 8))
    elif ek == 1:
        c["exc"] = ("unraised", rng.choice(["ValueError", "Custom"]), gen_text(rng, 8))
    elif ek == 2:
        c["exc"] = ("none3",)
    elif ek == 3:
        c["exc"] = ("chained", "RuntimeError", gen_text(rng, 6))
    return c


class CustomError(Exception):
    pass


class BadStrExc(Exception):
    def __str__(self):
        raise {"V": ValueError, "T": TypeError, "K": KeyError, "R": RuntimeError, "Z": ZeroDivisionError}[self.args[0]]("no str")


_WEIRD = {}


def weird_class(name):
    if name not in _WEIRD:
        _WEIRD[name] = type(name, (Exception,), {})
    return _WEIRD[name]


def make_exc(spec):
    if spec is None:
        return None
    if spec[0] == "none3":
        return (None, None, None)
    if spec[1].startswith("Weird:"):
        cls = weird_class(spec[1][6:])
    else:
        cls = {"ValueError": ValueError, "KeyError": KeyError, "ZeroDivisionError": ZeroDivisionError, "Custom": CustomError,
               "RuntimeError": RuntimeError, "BadStrExc": BadStrExc}[spec[1]]
    if spec[0] == "unraised":
        return cls(spec[2])
    try:
        if spec[0] == "chained":
            try:
                raise ValueError("inner " + spec[2])
            except ValueError as inner:
                raise cls(spec[2]) from inner
        raise cls(spec[2])
    except Exception as e:  # noqa
        return e


# ----------------------------------------------------------------------------- implementation runner
_LEVELS_DONE = False


def the_logger():
    global _LEVELS_DONE
    from loguru import logger
    if not _LEVELS_DONE:
        try:
            logger.remove()
        except ValueError:
            pass
        for name, no, icon in (("VERIF1", 33, "\u2714\n"), ("VERIF2", 7, '"\\')):
            try:
                logger.level(name, no=no, icon=icon)
            except (TypeError, ValueError):
                pass
        _LEVELS_DONE = True
    return logger


_PAIRS = {}        # format -> (out list, twin list); the handlers stay installed, a filter routes the call
_ACTIVE = [None]


def handler_pair(logger, fmt):
    if fmt not in _PAIRS:
        out, twin = [], []
        flt = (lambda f: (lambda record: _ACTIVE[0] == f))(fmt)
        logger.add(twin.append, format=fmt, colorize=False, catch=False, level=0, backtrace=False, diagnose=False, filter=flt)
        logger.add(out.append, format=fmt, serialize=True, catch=False, level=0, backtrace=False, diagnose=False, filter=flt)
        _PAIRS[fmt] = (out, twin)
    return _PAIRS[fmt]


def run_impl(c, colorize=None, sink_factory=None, pair=None):
    """execute the case on the real logger; returns dict(out=[Message], twin=[Message], err=Exception|None).
    The serialize=True handler and its non-serialising twin (same format) see the same record.
    `pair` = (token, out, twin): handlers of a history, already installed and routed by `token`."""
    logger = the_logger()
    fmt = c["format"][0]
    temp = []
    if pair is not None:
        token, out, twin = pair
        del out[:], twin[:]
        _ACTIVE[0] = token
    elif sink_factory is None:
        out, twin = handler_pair(logger, fmt)
        del out[:], twin[:]
        _ACTIVE[0] = fmt
    else:
        out, twin = [], []
        _ACTIVE[0] = "<private>"
        temp.append(logger.add(twin.append, format=fmt, colorize=False, catch=False, level=0, backtrace=False, diagnose=False))
        temp.append(logger.add(sink_factory(out), format=fmt, serialize=True, colorize=colorize, catch=False, level=0,
                               backtrace=False, diagnose=False))
    err = None
    try:
        lg = logger.bind(**c["bind"]) if c["bind"] else logger
        p = c["patch"]
        if p is not None:
            if p[0] == "extra":
                lg = lg.patch(lambda r: r["extra"].__setitem__(p[1], p[2]))
            elif p[0] == "level":
                from loguru._recattrs import RecordLevel
                lg = lg.patch(lambda r: r.__setitem__("level", RecordLevel(r["level"].name, p[1], p[2])))
            elif p[0] in ("file", "process", "thread"):
                import loguru._recattrs as ra
                cls = {"file": ra.RecordFile, "process": ra.RecordProcess, "thread": ra.RecordThread}[p[0]]
                lg = lg.patch(lambda r: r.__setitem__(p[0], cls(p[1], p[2])))
            else:
                lg = lg.patch(lambda r: r.__setitem__(p[0], p[1]))
        exc = make_exc(c["exc"])
        if exc is not None:
            lg = lg.opt(exception=exc)

        def call():
            if c["kwargs"]:
                lg.log(c["level"], c["message"].replace("{", "{{").replace("}", "}}"), **c["kwargs"])
            else:
                lg.log(c["level"], c["message"])
        try:
            if c["ctx"]:
                with logger.contextualize(**c["ctx"]):
                    call()
            else:
                call()
        except Exception as e:  # noqa
            err = e
    finally:
        _ACTIVE[0] = None
        for h in temp:
            logger.remove(h)
    return {"out": list(out), "twin": list(twin), "err": err}



# ----------------------------------------------------------------------------- histories on one long-lived handler
BUILTIN_LEVELS = ["TRACE", "DEBUG", "INFO", "SUCCESS", "WARNING", "ERROR", "CRITICAL"]
LEVEL_COLORS = ["<red>", "<blue><bold>", "", "<yellow>", "<bg green><black>", "<light-cyan>", "<u>"]
HANDLER_VARIANTS = [("default", {}), ("default", {}), ("colorize-false", {"colorize": False}),
                    ("colorize-true", {"colorize": True}), ("dynamic", {}), ("dynamic", {})]


def gen_history(seed):
    """a sequence of operations on ONE serialize=True handler (+ its twin): records interleaved with
    logger.level() updates (icon / color) of levels already used, custom levels created on the way, and
    per-record bind / contextualize / patch (incl. a patcher swapping record["level"]) / exception.
    Everything derives from the integer `seed`."""
    rng = core.Rng(seed)
    tag = "%06x" % (seed & 0xFFFFFF)
    customs = ["HV%sa" % tag, "HV%sb" % tag]
    focus = [rng.choice(BUILTIN_LEVELS), rng.choice(BUILTIN_LEVELS + customs), rng.choice(customs)]
    variant = rng.choice(HANDLER_VARIANTS)
    fmt = rng.choice([f for f in FORMATS if f[0]] + [("{level.icon}|{level.no}|{message}", "{level.icon}|{level.no}|{message}")] * 3)
    steps = []
    # identities that RECUR within the history with other attributes: a per-handler cache of any serialised
    # sub-object keyed by thread id / process id / file path / level name would go stale here
    ids = [rng.choice([1, 2, 77, 2**40]), rng.choice([3, 140000000000000])]
    paths = ["/p/" + gen_text(rng, 3).replace("\x00", ""), "/q.py"]
    for _ in range(rng.range(5, 16)):
        k = rng.below(10)
        name = rng.choice(focus) if rng.chance(85) else rng.choice(BUILTIN_LEVELS)
        if k < 6:
            c = gen_case(rng.next())
            c["format"] = fmt
            c["level"] = name
            if rng.chance(8):
                c["patch"] = ("level", rng.choice([0, 5, 20, 33, 10**6]), gen_text(rng, 3))
            elif rng.chance(22):
                kind = rng.choice(["process", "thread", "file"])
                if kind == "file":
                    c["patch"] = ("file", gen_text(rng, 4), rng.choice(paths))
                else:
                    c["patch"] = (kind, rng.choice(ids), gen_text(rng, 4))
            steps.append(("log", c))
        elif k == 6 and rng.chance(60):
            # the REAL thread / process is renamed between two records (same ident, another name)
            steps.append(("rename", rng.choice(["thread", "process"]), gen_text(rng, 5) or "T"))
        elif k < 8:
            steps.append(("level", name, {"icon": gen_text(rng, 3) if rng.chance(70) else rng.choice(["@", "", " ", "\n"])}))
        elif k == 8:
            steps.append(("level", name, {"color": rng.choice(LEVEL_COLORS)}))
        else:
            steps.append(("level", name, {"icon": gen_text(rng, 2), "color": rng.choice(LEVEL_COLORS)}))
    return {"seed": seed, "customs": customs, "variant": variant, "format": fmt, "steps": steps}


def run_history(h, on_record):
    """execute the history on the real logger; `on_record(index, case, result)` is called for every
    record step with the result dict of run_impl.  Level changes to built-in levels are undone."""
    logger = the_logger()
    fmt = h["format"][0]
    vname, vkw = h["variant"]
    fmt_arg = (lambda record: fmt + "\n{exception}") if vname == "dynamic" else fmt
    token = "<history %d>" % h["seed"]
    out, twin = [], []
    flt = lambda record: _ACTIVE[0] == token  # noqa: E731
    import multiprocessing
    import threading
    saved = {n: logger.level(n) for n in BUILTIN_LEVELS}
    names = (threading.current_thread().name, multiprocessing.current_process().name)
    ids = [logger.add(twin.append, format=fmt_arg, colorize=False, catch=False, level=0, backtrace=False, diagnose=False,
                      filter=flt),
           logger.add(out.append, format=fmt_arg, serialize=True, catch=False, level=0, backtrace=False, diagnose=False,
                      filter=flt, **vkw)]
    ctwin = []
    if vkw.get("colorize") is True:
        # colour explicitly requested: 'text' must be what a NON-serialising handler with colorize=True produces
        ids.append(logger.add(ctwin.append, format=fmt_arg, colorize=True, catch=False, level=0, backtrace=False,
                              diagnose=False, filter=flt))
    created = set()
    try:
        for i, st in enumerate(h["steps"]):
            if st[0] == "rename":
                if st[1] == "thread":
                    threading.current_thread().name = st[2]
                else:
                    multiprocessing.current_process().name = st[2]
                continue
            name = st[1]["level"] if st[0] == "log" else st[1]
            if name in h["customs"] and name not in created:
                try:
                    logger.level(name)
                except ValueError:
                    logger.level(name, no=10 + 7 * h["customs"].index(name), icon="c" + str(h["customs"].index(name)))
                created.add(name)
            if st[0] == "level":
                logger.level(name, **st[2])
            else:
                del ctwin[:]
                res = run_impl(st[1], pair=(token, out, twin))
                if len(ctwin) == 1:
                    res["ctwin"] = str(ctwin[0])
                on_record(i, st[1], res)
    finally:
        _ACTIVE[0] = None
        threading.current_thread().name, multiprocessing.current_process().name = names
        for hid in ids:
            logger.remove(hid)
        for n, lv in saved.items():
            if logger.level(n) != lv:
                logger.level(n, color=lv.color, icon=lv.icon)


def check_history(ctx, h, lines, pending):
    explicit = h["variant"][1].get("colorize") is True
    nlev = [0]
    seen_levels = set()

    def on_record(i, c, res):
        rep = {"stream": "history", "history_seed": h["seed"], "step": i}
        if len(res["twin"]) != 1:
            raise RuntimeError("harness: twin handler got %d messages for %r" % (len(res["twin"]), rep))
        record = res["twin"][0].record
        why = outside_reason(record)
        if why is not None:
            ctx.stat("outside_quantifier:" + why)
            return
        text = None
        if explicit:
            try:
                text = json.loads(str(res["out"][0]))["text"]
            except Exception:  # noqa
                text = None
        try:
            line = model_line(res, text) if (not explicit or text is not None) else None
        except Outside as e:
            ctx.stat("outside_quantifier:" + str(e))
            return
        # a record is non-trivial here when its level was used before in this history (possibly updated since)
        ctx.case((h["seed"], i), nontrivial=(record["level"].name in seen_levels))
        seen_levels.add(record["level"].name)
        ctx.stat("stream:history")
        ctx.stat("history:variant:" + h["variant"][0])
        if res["err"] is not None:
            ctx.stat("impl_err:" + canon_err(res["err"]))
        for what, k in oracle(c, res, explicit_colour=explicit):
            ctx.violation(what + "  [history seed %d, step %d, handler %s, level %r after %d level updates]"
                          % (h["seed"], i, h["variant"][0], record["level"].name, nlev[0]),
                          dict(rep, expected="property C14", observed=what), key=k)
            break
        if line is not None:
            lines.append(line)
            c["_other_key"] = record_has_other_key(record)
            pending.append((rep, impl_result(res), c))

    # count level updates as they pass (for the message only)
    for st in h["steps"]:
        if st[0] == "level":
            ctx.stat("history:level-update:" + "+".join(sorted(st[2])))
        elif st[0] == "rename":
            ctx.stat("history:rename:" + st[1])
    orig = on_record

    def counting(i, c, res):
        nlev[0] = sum(1 for s2 in h["steps"][:i] if s2[0] == "level")
        orig(i, c, res)
    run_history(h, counting)


# ----------------------------------------------------------------------------- the except clause of emit (catch=)
BAD_VALUES = [lambda: BadStr("V"), lambda: [1, {"k": BadStr("T")}], lambda: ({"a": (BadStr("R"),)},),
              lambda: {"d": {(1, 2): "x"}}, lambda: [{"e": [{b"k": 1}]}], lambda: {"d": {frozenset([1]): None, "s": 1}},
              lambda: {1: {KeyObj(): BadStr("K")}}, lambda: {"d": {"ok": 1, (): BadStr("Z")}}]


def gen_catch_history(seed):
    """3–6 logging calls on ONE serialize=True handler created with catch=True or catch=False; about 40 % of the records
    carry a value that cannot be serialised (str() raises, or – F33 – a nested dictionary key json has no rule for)"""
    rng = core.Rng(seed)
    h = {"seed": seed, "catch": rng.chance(60), "format": rng.choice([f for f in FORMATS if f[0] and "extra" not in f[0]]),
         "steps": []}
    for _ in range(rng.range(3, 6)):
        c = gen_case(rng.next())
        c["format"] = h["format"]
        if rng.chance(40):
            c["bind"] = dict(c["bind"])
            c["bind"][rng.choice(["bad", "k", "zz"])] = rng.choice(BAD_VALUES)()
        h["steps"].append(c)
    return h


def reported_kind(stderr_text):
    """the exception class named on the last line of the traceback ErrorInterceptor.print wrote"""
    body = stderr_text.split("--- End of logging error ---")[0].rstrip("\n").split("\n")
    name = body[-1].split(":")[0].strip().split(".")[-1] if body else ""
    return name if name in ("ValueError", "TypeError", "KeyError", "IndexError", "RuntimeError", "OSError", "AttributeError") else "Other"


def run_catch_history(h, on_record):
    logger = the_logger()
    fmt = h["format"][0]
    token = "<catch %d>" % h["seed"]
    out, twin = [], []
    flt = lambda record: _ACTIVE[0] == token  # noqa: E731
    ids = [logger.add(twin.append, format=fmt, colorize=False, catch=False, level=0, backtrace=False, diagnose=False, filter=flt),
           logger.add(out.append, format=fmt, serialize=True, catch=h["catch"], level=0, backtrace=False, diagnose=False,
                      filter=flt)]
    keep = sys.stderr
    try:
        for i, c in enumerate(h["steps"]):
            buf = io.StringIO()
            sys.stderr = buf
            try:
                res = run_impl(c, pair=(token, out, twin))
            finally:
                sys.stderr = keep
            res["stderr"] = buf.getvalue()
            res["handler_id"] = ids[1]
            on_record(i, c, res)
    finally:
        sys.stderr = keep
        _ACTIVE[0] = None
        for hid in ids:
            logger.remove(hid)


def catch_oracle(h, c, res):
    """DIRECT ORACLE for the except clause: a record is never lost SILENTLY.  Returns [(what, key)]."""
    record = res["twin"][0].record
    if outside_reason(record) is not None:
        return []
    marker = "--- Logging error in Loguru Handler #%d ---" % res["handler_id"]
    reports = res["stderr"].count(marker)
    unserialisable = str_fails(record) or record_has_other_key(record)
    problems = list(oracle(c, res))
    if not unserialisable:
        if reports or "Logging error in Loguru" in res["stderr"]:
            problems.append(("a logging error was reported on stderr for a record every value of which has a str()", None))
        return problems
    key = F33 if (record_has_other_key(record) and not str_fails(record)) else None
    if res["out"]:
        return problems          # it WAS emitted: the general oracle has judged the line
    if h["catch"]:
        if res["err"] is not None:
            problems.append(("catch=True handler let %r escape into the logging call" % (res["err"],), None))
        elif reports != 1:
            problems.append(("record dropped by a catch=True handler with %d error reports on stderr (expected exactly 1): "
                             "lost silently" % reports, None))
    else:
        if res["err"] is None:
            problems.append(("catch=False handler emitted nothing and raised nothing: record lost silently", None))
        elif reports:
            problems.append(("catch=False handler reported on stderr AND raised", None))
    return problems


def check_catch_history(ctx, h, lines, expected):
    def on_record(i, c, res):
        rep = {"stream": "catch", "history_seed": h["seed"], "step": i}
        if len(res["twin"]) != 1:
            raise RuntimeError("harness: twin handler got %d messages for %r" % (len(res["twin"]), rep))
        record = res["twin"][0].record
        if outside_reason(record) is not None:
            ctx.stat("outside_quantifier:" + outside_reason(record))
            return
        bad = str_fails(record) or record_has_other_key(record)
        ctx.case(("catch", h["seed"], i), nontrivial=bad or i > 0)
        ctx.stat("stream:catch")
        ctx.stat("catch:%s:%s" % ("catch" if h["catch"] else "nocatch",
                                  "wrote" if res["out"] else ("raised" if res["err"] is not None else "reported")))
        seen = set()
        for what, k in catch_oracle(h, c, res):
            if k in seen:
                continue
            seen.add(k)
            ctx.violation(what + "  [catch history seed %d, step %d, catch=%r]" % (h["seed"], i, h["catch"]),
                          dict(rep, expected="property C14", observed=what), key=k)
            if k is None:
                break
        table, out = wire_record(record)
        lines.append("hemit %d 1 %s %d %s" % (int(h["catch"]), enc(str(res["twin"][0])), len(table), " ".join(table + out)))
        if res["out"]:
            impl = "wrote " + enc(str(res["out"][0]))
        elif res["err"] is not None:
            impl = "raised " + canon_err(res["err"])
        else:
            impl = "reported " + reported_kind(res["stderr"])
        expected.append((rep, impl, record_has_other_key(record)))
    run_catch_history(h, on_record)


# ----------------------------------------------------------------------------- several serialising handlers, one shared record
class Snap(str):
    """the formatted text a handler must have produced + the record AS THAT HANDLER saw it (stands for the twin's Message)"""
    record = None


def snapshot(record):
    """the record at the moment a sink receives it: plain containers are copied (later handlers' filters, format
    functions and sinks edit the SHARED record), objects stay by reference"""
    def cp(v):
        if type(v) is dict:
            return {k: cp(x) for k, x in v.items()}
        if type(v) is list:
            return [cp(x) for x in v]
        if type(v) is tuple:
            return tuple(cp(x) for x in v)
        return v
    return {k: cp(v) for k, v in record.items()}


def apply_edit(edit, record):
    if edit is None:
        return
    if edit[0] == "set":
        record["extra"][edit[1]] = edit[2]
    elif edit[0] == "del":
        record["extra"].pop(edit[1], None)
    elif edit[0] == "message":
        record["message"] = edit[1]
    elif edit[0] == "function":
        record["function"] = edit[1]


_MULTI = {"active": None, "specs": None, "outs": None}
_MULTI_DONE = set()
MULTI_DYNAMIC = [False, True, False]          # handler 1 and 3 have a static format, handler 2 a format FUNCTION


def multi_handlers(logger, fmt):
    """three serialize=True handlers per format, installed once; what their filter / format function / sink do to the
    shared record is looked up in _MULTI at call time"""
    if fmt in _MULTI_DONE:
        return
    for i in range(3):
        def flt(record, i=i):
            if _MULTI["active"] != fmt or i >= len(_MULTI["specs"]):
                return False
            apply_edit(_MULTI["specs"][i]["filter"], record)
            return True

        def fmtfn(record, i=i):
            apply_edit(_MULTI["specs"][i]["format_fn"], record)
            return fmt + "\n{exception}"

        def sink(m, i=i):
            _MULTI["outs"][i].append((m, snapshot(m.record)))
            apply_edit(_MULTI["specs"][i]["sink"], m.record)
        logger.add(sink, format=(fmtfn if MULTI_DYNAMIC[i] else fmt), serialize=True, catch=False, level=0, backtrace=False,
                   diagnose=False, filter=flt)
    _MULTI_DONE.add(fmt)


def gen_edit(rng, stats, c, tag):
    k = rng.below(10)
    if k < 4:
        return None
    if k < 7:
        return ("set", rng.choice([tag, "route", "k", gen_key(rng)]), gen_value(rng, stats))
    if k == 7:
        keys = list(c["bind"]) + list(c["ctx"]) + ["route", "k"]
        return ("del", rng.choice(keys))
    if k == 8:
        return ("message", gen_text(rng, 10))
    return ("function", gen_text(rng, 5))


def gen_multi_case(seed):
    """ONE logging call dispatched to two or three serialize=True handlers that SHARE the record; the filter, the dynamic
    format function and the sink of each handler may edit it (extra set / deleted, message, function) – so each handler sees
    another state of the same dict object"""
    rng = core.Rng(seed)
    c = gen_case(rng.next())
    c["exc"] = None
    c["format"] = rng.choice([f for f in FORMATS if f[0]])
    stats = lambda name: c["hist"].__setitem__(name, c["hist"].get(name, 0) + 1)  # noqa: E731
    c["specs"] = []
    for i in range(rng.choice([2, 3, 3])):
        c["specs"].append({"filter": gen_edit(rng, stats, c, "f%d" % i),
                           "format_fn": gen_edit(rng, stats, c, "d%d" % i) if MULTI_DYNAMIC[i] else None,
                           "sink": gen_edit(rng, stats, c, "s%d" % i)})
    return c


def run_multi_case(c):
    """returns (per-handler results in the shape the oracle takes, the exception that reached the caller)"""
    logger = the_logger()
    fmt, plain = c["format"]
    multi_handlers(logger, fmt)
    _MULTI.update(active=fmt, specs=c["specs"], outs=[[] for _ in c["specs"]])
    try:
        res0 = run_impl(c, pair=("<multi>", [], []))
    finally:
        _MULTI["active"] = None
    results = []
    for i, got in enumerate(_MULTI["outs"]):
        for m, snap in got:
            try:
                text = plain.format_map(dict(snap, exception="")) + "\n"
            except Exception:  # noqa  (str(extra) of a value whose __repr__ … – not this property's business)
                continue
            tw = Snap(text)
            tw.record = snap
            results.append((i, {"out": [m], "twin": [tw], "err": None}))
    return results, res0["err"]


def check_multi_case(ctx, seed, lines, pending):
    c = gen_multi_case(seed)
    results, err = run_multi_case(c)
    ctx.stat("multi:handlers-reached:%d-of-%d" % (len(results), len(c["specs"])))
    for i, res in results:
        rep = {"stream": "multi", "case_seed": seed, "handler": i}
        record = res["twin"][0].record
        if outside_reason(record) is not None:
            ctx.stat("outside_quantifier:" + outside_reason(record))
            continue
        edited = any(sp[k] is not None for sp in c["specs"][:i + 1] for k in ("filter", "format_fn")) or \
            any(sp["sink"] is not None for sp in c["specs"][:i])
        ctx.case(("multi", seed, i), nontrivial=edited and i > 0)
        ctx.stat("stream:multi")
        seen = set()
        for what, k in oracle(c, res):
            if k in seen:
                continue
            seen.add(k)
            ctx.violation(what + "  [multi-handler case seed %d: handler %d of %d serialize=True handlers sharing the record; "
                          "edits so far: %r]" % (seed, i + 1, len(c["specs"]), [sp for sp in c["specs"][:i + 1]]),
                          dict(rep, expected="property C14", observed=what), key=k)
            if k is None:
                break
        try:
            line = model_line(res)
        except Outside:
            continue
        ci = dict(c)
        ci["_other_key"] = record_has_other_key(record)
        lines.append(line)
        pending.append((rep, impl_result(res), ci))


def replay_multi(r):
    c = gen_multi_case(r["case_seed"])
    print("multi-handler case seed %d: log(%r, %r) bind=%r, format %r" % (r["case_seed"], c["level"], c["message"][:30], c["bind"], c["format"][0]))
    for i, sp in enumerate(c["specs"]):
        print("  handler %d (%s format): filter %r, format function %r, sink %r"
              % (i + 1, "dynamic" if MULTI_DYNAMIC[i] else "static", sp["filter"], sp["format_fn"], sp["sink"]))
    results, err = run_multi_case(c)
    found = []
    for i, res in results:
        probs = oracle(c, res)
        print("  handler %d got %s" % (i + 1, repr(str(res["out"][0]))[:300]))
        print("           the record as it saw it: extra=%r message=%r" % (res["twin"][0].record["extra"], res["twin"][0].record["message"]))
        for what, _ in probs:
            print("           ORACLE: " + what)
            found.append(what)
    print("REPRODUCED" if found else "not reproduced")
    return 1 if found else 0


# ----------------------------------------------------------------------------- big records
def gen_big_case(seed):
    """one record whose message / extra are LARGE (a size-dependent truncation, chunking or buffer reuse would show)"""
    rng = core.Rng(seed)
    c = gen_case(rng.next())
    n = rng.choice([5000, 20000, 70000])
    unit = gen_text(rng, 12) or "x\n"
    c["message"] = (unit * (n // len(unit) + 1))[:n]
    c["format"] = FORMATS[0]
    c["bind"] = {"big": [rng.range(-10**9, 10**9) for _ in range(rng.choice([10, 3000]))],
                 "wide": {"k%d" % i: gen_text(rng, 4) for i in range(rng.choice([5, 400]))},
                 "long": Obj(gen_text(rng, 8) * rng.choice([1, 3000]))}
    c["exc"] = None
    return c


# ----------------------------------------------------------------------------- concurrent calls on one handler
def run_threads_case(seed, n_threads=4, per_thread=60):
    """several threads log through ONE serialize=True handler at the same time (the switch interval is lowered so that
    threads are switched in the middle of `_serialize_record`); returns [(thread index, case, Message)] and errors"""
    logger = the_logger()
    rng = core.Rng(seed)
    token = "<threads %d>" % seed
    got, errors = [], []
    lock = threading.Lock()

    def sink(m):
        with lock:
            got.append(m)
    flt = lambda record: record["extra"].get("_c14_token") == token  # noqa: E731
    hid = logger.add(sink, format="{message}", serialize=True, catch=False, level=0, backtrace=False, diagnose=False, filter=flt)
    plans = []
    for t in range(n_threads):
        sub = core.Rng(rng.next())
        plans.append([(gen_text(sub, 20), {"v": gen_value(sub, lambda *_: None), "n": [sub.range(0, 9)] * sub.choice([1, 50, 400])})
                      for _ in range(per_thread)])
    keep = sys.getswitchinterval()

    def work(t):
        lg = logger.bind(_c14_token=token, _c14_thread=t)
        for i, (msg, extra) in enumerate(plans[t]):
            try:
                lg.bind(_c14_i=i, **extra).info(msg.replace("{", "{{").replace("}", "}}"))
            except Exception as e:  # noqa
                errors.append((t, i, e))
    try:
        sys.setswitchinterval(1e-6)
        ths = [threading.Thread(target=work, args=(t,), name="c14-%d-%s" % (t, gen_text(rng, 3))) for t in range(n_threads)]
        for th in ths:
            th.start()
        for th in ths:
            th.join(60)
    finally:
        sys.setswitchinterval(keep)
        logger.remove(hid)
    return plans, got, errors


def check_threads_case(ctx, seed):
    plans, got, errors = run_threads_case(seed)
    rep = {"stream": "threads", "threads_seed": seed}
    probs = threads_oracle(plans, got, errors)
    ctx.case(("threads", seed), nontrivial=True, n=len(got))
    ctx.stat("stream:threads", len(got))
    for what in probs[:1]:
        ctx.violation(what + "  [threads seed %d]" % seed, dict(rep, expected="property C14", observed=what))


def threads_oracle(plans, got, errors):
    """every message is one JSON line mirroring ITS OWN record, whatever the other threads were serialising meanwhile"""
    probs = []
    expected = sum(1 for p in plans for (_, extra) in p if not has_other_key(extra) and not contains_bad(extra))
    for t, i, e in errors:
        _, extra = plans[t][i]
        if not has_other_key(extra) and not contains_bad(extra):
            probs.append("thread %d, call %d raised %r although every value has a str()" % (t, i, e))
    if len(got) < expected:
        probs.append("%d messages reached the sink, %d serialisable records were logged" % (len(got), expected))
    for m in got:
        s = str(m)
        rec = m.record
        where = "thread %r, call %r" % (rec["extra"].get("_c14_thread"), rec["extra"].get("_c14_i"))
        if not s.endswith("\n") or "\n" in s[:-1] or "\r" in s:
            probs.append("%s: not exactly one line" % where)
            continue
        try:
            parsed = json.loads(s)
        except ValueError as e:
            probs.append("%s: json.loads fails: %s" % (where, e))
            continue
        r = parsed.get("record", {}) if isinstance(parsed, dict) else {}
        if contains_bad(rec["extra"]):
            probs.append("%s: a value whose str() raises was serialised?!" % where)
        elif has_other_key(rec["extra"]):
            pass            # F33 repaired?  how such a key is rendered is not prescribed
        elif not isinstance(parsed, dict) or parsed.get("text") != rec["message"] + "\n":
            probs.append("%s: 'text' is %r, the record's message is %r"
                         % (where, str(parsed.get("text") if isinstance(parsed, dict) else parsed)[:60], rec["message"][:60]))
        elif r.get("message") != rec["message"]:
            probs.append("%s: record.message is %r, the record's own is %r" % (where, str(r.get("message"))[:60], rec["message"][:60]))
        elif r.get("thread") != {"id": rec["thread"].id, "name": rec["thread"].name}:
            probs.append("%s: record.thread is %r, the record's own is %r" % (where, r.get("thread"), rec["thread"]))
        elif not jeq(r.get("extra"), expect_json(rec["extra"])):
            probs.append("%s: record.extra differs from the record's own extra" % where)
    return probs


# ----------------------------------------------------------------------------- file sinks, enqueue=True: the consumer's view
def gen_sink_case(seed):
    """6–10 logging calls written by a serialize=True FILE sink (optionally enqueue=True: the Message crosses a queue
    and is written by the worker thread); the file is then read back the way a log shipper does: line by line"""
    import pickle
    rng = core.Rng(seed)
    h = {"seed": seed, "enqueue": rng.chance(50), "format": rng.choice([f for f in FORMATS if "extra" not in f[0]]), "steps": []}
    for _ in range(rng.range(6, 10)):
        c = gen_case(rng.next())
        c["format"] = h["format"]
        h["steps"].append(c)
    if h["enqueue"]:
        try:
            pickle.dumps([(c["bind"], c["ctx"], c["kwargs"], c["patch"]) for c in h["steps"]])
        except Exception:  # noqa  (a value the queue cannot carry: not this property's business)
            h["enqueue"] = False
    return h


def run_sink_case(h):
    """returns [(case, res)] with res['out'] = [the line read back from the file] (or [] when none was written)"""
    import shutil
    import tempfile
    logger = the_logger()
    fmt = h["format"][0]
    token = "<sink %d>" % h["seed"]
    twin, dummy = [], []
    flt = lambda record: _ACTIVE[0] == token  # noqa: E731
    d = tempfile.mkdtemp(prefix="c14sink")
    path = os.path.join(d, "out.jsonl")
    results, problems = [], []
    try:
        ids = [logger.add(twin.append, format=fmt, colorize=False, catch=False, level=0, backtrace=False, diagnose=False, filter=flt),
               logger.add(path, format=fmt, serialize=True, catch=False, level=0, backtrace=False, diagnose=False, filter=flt,
                          enqueue=h["enqueue"], encoding="utf8")]
        try:
            for c in h["steps"]:
                res = run_impl(c, pair=(token, dummy, twin))
                results.append((c, res))
        finally:
            _ACTIVE[0] = None
            for hid in ids:
                logger.remove(hid)
        with open(path, encoding="utf8", newline="") as f:
            raw = f.read()
        with open(path, encoding="utf8") as f:
            as_consumer = list(f)                      # universal newlines: what `for line in file` yields
        parts = raw.split("\n")
        expected = [i for i, (c, res) in enumerate(results) if res["err"] is None]
        if "\r" in raw:
            problems.append("the file contains a raw CR")
        if parts[-1] != "":
            problems.append("the file does not end with a newline: %r" % raw[-30:])
        if len(parts) - 1 != len(expected) or len(as_consumer) != len(expected):
            problems.append("%d logging calls returned normally but the file has %d LF-terminated lines (%d lines for a "
                            "line-by-line reader)" % (len(expected), len(parts) - 1, len(as_consumer)))
        else:
            for i, line in zip(expected, as_consumer):
                results[i][1]["out"] = [line]
    finally:
        shutil.rmtree(d, ignore_errors=True)
    return results, problems


def check_sink_case(ctx, h):
    results, problems = run_sink_case(h)
    rep = {"stream": "sink", "sink_seed": h["seed"]}
    ctx.stat("sink:files:" + ("enqueue" if h["enqueue"] else "direct"))
    for what in problems[:1]:
        ctx.violation(what + "  [file sink seed %d, enqueue=%r]" % (h["seed"], h["enqueue"]),
                      dict(rep, expected="property C14", observed=what))
    for i, (c, res) in enumerate(results):
        if len(res["twin"]) != 1:
            raise RuntimeError("harness: twin handler got %d messages for %r" % (len(res["twin"]), rep))
        record = res["twin"][0].record
        if outside_reason(record) is not None:
            continue
        ctx.case(("sink", h["seed"], i), nontrivial=True)
        ctx.stat("stream:sink")
        if problems:
            continue
        seen = set()
        for what, k in oracle(c, res):
            if k in seen:
                continue
            seen.add(k)
            ctx.violation(what + "  [file sink seed %d, record %d, enqueue=%r]" % (h["seed"], i, h["enqueue"]),
                          dict(rep, step=i, expected="property C14", observed=what), key=k)
            break


def replay_sink(r):
    h = gen_sink_case(r["sink_seed"])
    print("file sink seed %d: enqueue=%r, format %r, %d records" % (h["seed"], h["enqueue"], h["format"][0], len(h["steps"])))
    results, problems = run_sink_case(h)
    found = list(problems)
    for what in problems:
        print("  ORACLE: " + what)
    for i, (c, res) in enumerate(results):
        probs = [] if problems else oracle(c, res)
        print("  record %d  log(%r, %r) -> %s" % (i, c["level"], c["message"][:30],
              repr(res["out"][0])[:200] if res["out"] else "no line, raised %r" % (res["err"],)))
        for what, _ in probs:
            print("           ORACLE: " + what)
            found.append(what)
    print("REPRODUCED" if found else "not reproduced")
    return 1 if found else 0


def contains_bad(v):
    if isinstance(v, BadStr):
        return True
    if isinstance(v, (list, tuple)):
        return any(contains_bad(x) for x in v)
    if isinstance(v, dict):
        return any(contains_bad(x) for x in v.values())
    return False


NEED_ESC = set(CONTROLS[:-1]) | {'"', "\\"}


def interesting(c, record):
    txt = c["message"] + json.dumps(expect_json_safe(record["extra"]), ensure_ascii=False)
    return (any(ch in NEED_ESC or ord(ch) > 0x7e for ch in txt) or record["exception"] is not None
            or any(k.startswith(("node:", "leaf:object", "leaf:bytes", "leaf:datetime")) for k in c["hist"]))


def expect_json_safe(v):
    try:
        return expect_json(v)
    except Exception:  # noqa
        return "<str() raises>"


def oracle(c, res, explicit_colour=False):
    """DIRECT ORACLE: judge the implementation's output against the property itself.
    Returns a list of (what, key) problems (empty = property held on this case)."""
    problems = []
    out, twin, err = res["out"], res["twin"], res["err"]
    if len(twin) != 1:
        return [("twin handler received %d messages" % len(twin), None)]
    record = twin[0].record
    if outside_reason(record) is not None:
        return []      # outside the property's quantifier (lone surrogate, dictionary key json has no rule for)
    bad = str_fails(record)
    other_key = record_has_other_key(record)
    if err is not None or len(out) != 1:
        if bad:
            return []  # str() itself fails: nothing can be rendered (the model must agree: see correspondence)
        if other_key:
            # KNOWN FINDING F33 (C14.serialize_total_statement_false / C14.nonscalar_key_loses_record): default=str is
            # never applied to dictionary KEYS
            return [("serialize=True handler emitted %d messages, error %r: a nested dictionary key that is not "
                     "str/int/float/bool/None is not rendered with str() but makes json.dumps fail" % (len(out), err), F33)]
        return [("serialize=True handler emitted %d messages, error %r, although every value has a str()"
                 % (len(out), err), None)]
    if bad:
        return [("a value whose str() raises was serialised?!", None)]
    s = str(out[0])
    if not s.endswith("\n"):
        problems.append(("output does not end with a newline: %r" % s[-20:], None))
    body = s[:-1] if s.endswith("\n") else s
    if "\n" in body or "\r" in body:
        problems.append(("raw line break inside the JSON line at index %d"
                         % min(i for i, ch in enumerate(body) if ch in "\n\r"), None))
    try:
        parsed = json.loads(s)
    except ValueError as e:
        return problems + [("json.loads fails: %s" % e, None)]
    if not isinstance(parsed, dict) or list(parsed.keys()) != ["text", "record"]:
        return problems + [("top-level keys are %r" % (list(parsed) if isinstance(parsed, dict) else type(parsed)), None)]
    text_expected = str(twin[0])
    if not explicit_colour and parsed["text"] != text_expected:
        problems.append(("'text' is %r, the formatted message is %r" % (parsed["text"][:80], text_expected[:80]), None))
    if record["exception"] is None and not explicit_colour:
        try:
            plain = c["format"][1].format_map(record) + "\n"
            if parsed["text"] != plain:
                problems.append(("'text' is %r, str.format gives %r" % (parsed["text"][:80], plain[:80]), None))
        except Exception:  # noqa  (str(extra) may raise – not this property's business)
            pass
    if explicit_colour and "ctwin" in res and parsed["text"] != res["ctwin"]:
        problems.append(("colour was requested: 'text' is %r, a colorize=True handler without serialize gives %r"
                         % (parsed["text"][:80], res["ctwin"][:80]), None))
    if not explicit_colour and "\x1b" in parsed["text"] and "\x1b" not in text_expected:
        problems.append(("colour codes in 'text' although colorize was not requested", None))
    r = parsed["record"]
    exc = record["exception"]
    want = {
        "elapsed": {"repr": str(record["elapsed"]), "seconds": record["elapsed"].total_seconds()},
        "exception": None if exc is None else {
            "type": None if exc.type is None else exc.type.__name__,
            "value": expect_json(exc.value), "traceback": exc.traceback is not None},
        "extra": expect_json(record["extra"]) if not other_key else None,
        "file": {"name": expect_json(record["file"].name), "path": expect_json(record["file"].path)},
        "function": expect_json(record["function"]),
        "level": {"icon": record["level"].icon, "name": record["level"].name, "no": record["level"].no},
        "line": expect_json(record["line"]),
        "message": expect_json(record["message"]),
        "module": expect_json(record["module"]),
        "name": expect_json(record["name"]),
        "process": {"id": record["process"].id, "name": record["process"].name},
        "thread": {"id": record["thread"].id, "name": record["thread"].name},
        "time": {"repr": str(record["time"]), "timestamp": record["time"].timestamp()},
    }
    if not isinstance(r, dict):
        return problems + [("'record' is not an object", None)]
    for k in want:
        if k not in r:
            problems.append(("record.%s is missing" % k, None))
        elif k == "extra" and other_key:
            # how a repaired implementation renders such a key is not prescribed – but no member may be DROPPED
            lost = dropped_member(r[k], record["extra"])
            if lost:
                problems.append(("record.extra: " + lost, None))
        elif not jeq(r[k], want[k]):
            if isinstance(want[k], dict) and isinstance(r[k], dict) and k != "extra":
                for kk in want[k]:
                    if kk not in r[k]:
                        problems.append(("record.%s.%s is missing" % (k, kk), None))
                    elif not jeq(r[k][kk], want[k][kk]):
                        problems.append(("record.%s.%s is %r, the record's own value is %r"
                                         % (k, kk, r[k][kk], want[k][kk]), None))
            else:
                problems.append(("record.%s is %r, the record's own value gives %r"
                                 % (k, str(r[k])[:100], str(want[k])[:100]), None))
    for k in r:
        if k not in want:
            problems.append(("unexpected key record.%s" % k, None))
    # non-ASCII preserved unescaped: every non-ASCII character of the inputs appears raw, and no \uXXXX
    # escape denotes anything but a C0 control
    for src in (record["message"], text_expected, record["level"].icon):
        if isinstance(src, str):
            for ch in src:
                if ord(ch) >= 0x7f and ch not in body:
                    problems.append(("non-ASCII character U+%04X of the record is not preserved verbatim" % ord(ch), None))
                    break
    i = body.find("\\u")
    while i != -1:
        nb = 0
        j = i - 1
        while j >= 0 and body[j] == "\\":
            nb += 1
            j -= 1
        if nb % 2 == 0:
            try:
                cp = int(body[i + 2:i + 6], 16)
            except ValueError:
                cp = -1
            if cp >= 0x20:
                problems.append(("character U+%04X written as an escape instead of verbatim" % cp, None))
                break
        i = body.find("\\u", i + 2)
    return problems


def outside_reason(record):
    """why the record is outside the property's quantifier (None = inside)"""
    try:
        _, out = wire_record(record)
    except Outside as e:
        return str(e)
    return None


def str_fails(record):
    """str() raises on some object json has to hand to default= (extra values, exception value, patched fields …)"""
    table, _ = wire_record(record)
    return any(t.startswith("!") for t in table)


F33 = "F33-json-nonscalar-dict-key"     # known finding: a nested dict key json has no rule for loses the record


def record_has_other_key(record):
    """a dictionary key that is not str/int/float/bool/None somewhere in the values `_serialize_record` hands to json"""
    exc = record["exception"]
    return any(has_other_key(v) for v in (record["extra"], record["message"], record["function"], record["line"],
                                          record["module"], record["name"], None if exc is None else exc.value))


def model_line(res, text=None):
    """`emit 1 …` line for the record the handlers saw (None when outside the quantifier)"""
    record = res["twin"][0].record
    table, out = wire_record(record)
    if text is None:
        text = str(res["twin"][0])
    if has_surrogate(text):
        raise Outside("surrogate")
    return "emit 1 %s %d %s" % (enc(text), len(table), " ".join(table + out))


def impl_result(res):
    if res["err"] is not None:
        return "err " + canon_err(res["err"])
    if len(res["out"]) != 1:
        return "none"
    return "ok " + enc(str(res["out"][0]))


# ----------------------------------------------------------------------------- string-level streams (Python semantics)
def gen_json_string_token(rng):
    """a JSON string token, ~15 % malformed, followed by a little trailing text"""
    parts = ['"']
    for _ in range(rng.choice([0, 1, 2, 3, 5, 8])):
        k = rng.below(12)
        if k < 3:
            parts.append(rng.choice(PLAIN + NONASCII))
        elif k < 6:
            parts.append("\\" + rng.choice('"\\/bfnrt'))
        elif k < 8:
            parts.append("\\u%04x" % rng.choice([0, 0x1f, 0x41, 0xe9, 0x2028, 0xd7ff, 0xe000, 0xffff, rng.range(0, 0xd7ff)]))
        elif k == 8:
            parts.append("\\u%04X" % rng.range(0xa, 0xd7ff))
        elif k == 9:
            parts.append(rng.choice(["\\x", "\\u12", "\\u12g4", "\\", "\\'", "\\U0001f600", "\\0", "\\a"]))  # malformed
        elif k == 10:
            parts.append(rng.choice(CONTROLS))                                                               # raw control
        else:
            parts.append(rng.choice(["'", "/", "{", " ", "\x7f", "\u2028"]))
    if not rng.chance(7):
        parts.append('"')
    parts.append(rng.choice(["", "", ",", "x", '"', " "]))
    return "".join(parts)


def py_scanstring(tok):
    from json.decoder import scanstring as scan
    if not tok.startswith('"'):
        return "none"
    try:
        s, end = scan(tok, 1, True)
    except (ValueError, IndexError):
        return "none"
    if has_surrogate(s):
        return None  # surrogate escapes: outside the model
    return "ok %s %s" % (enc(s), enc(tok[end:]))


def strip_errors(lines, limit=3):
    return "; ".join(lines[:limit])


# ----------------------------------------------------------------------------- the run
def load_corpus():
    items = []
    for p in sorted(glob.glob(os.path.join(core.VERIF, "corpus", PROP, "*.json"))):
        with open(p, encoding="utf8") as f:
            data = json.load(f)
        for it in data.get("cases", []):
            it["_file"] = os.path.basename(p)
            items.append(it)
    return items


def case_from_corpus(it):
    c = gen_case(0)
    c.update({"seed": None, "hist": {}, "message": it["message"], "format": tuple(it.get("format", ["{message}", "{message}"])),
              "level": it.get("level", "INFO"), "bind": it.get("extra", {}), "ctx": {}, "kwargs": {}, "patch": None,
              "exc": tuple(it["exc"]) if it.get("exc") else None})
    return c


# model-level witnesses of Props/C14.lean replayed on the implementation (in-quantifier ones are judged like any case)
WITNESSES = [
    # C14.dumps_keywords_matter: one int and one str key – total only because sort_keys is off
    {"message": "mixed keys", "extra": {"d": {1: None, "a": None}}},
    # C14.exMixed: every coercible key class, colliding texts, nested
    {"message": "all key classes", "extra": {"d": {1: "a", "1": None, None: True, False: {1.5e-07: 2}, math.nan: [math.inf]}}},
    {"message": "none and str", "extra": {"d": {None: 1, "null": 2, "b": {True: 0, 2**70: [], -0.0: ()}}}},
    {"message": "deep", "extra": {"d": [[[[[[[[[[{"k": ({1: [{"x": (Obj("o\n"),)}]},)}]]]]]]]]]]}},
]
# C14.serialize_total_statement_false / C14.nonscalar_key_loses_record (known finding F33): a key json has no rule for
WITNESS_OUTSIDE = {"message": "tuple key", "extra": {"d": {"e": {(1, 2): "x"}}}}


def colour_case(seed):
    """a case of the colour stream: markup format on a tty-like stream sink; every other case keeps its exception, so that
    the text of a traceback is judged too (the exception formatter has a colorize flag of its own)"""
    c = gen_case(seed)
    c["format"] = ("<red>{message}</red>|<b>{level.name}</b>", "{message}|{level.name}")
    if seed % 2 or (c["exc"] and len(c["exc"]) > 1 and c["exc"][1] == "BadStrExc"):
        c["exc"] = None
    return c


class TtyStream:
    """a stream sink that claims to be a terminal"""

    def __init__(self, out):
        self.out = out

    def write(self, m):
        self.out.append(m)

    def flush(self):
        pass

    def isatty(self):
        return True


def check_case(ctx, c, replay, lines, pending, tag):
    """run one case on the implementation, judge it, queue the model line"""
    res = run_impl(c)
    if len(res["twin"]) != 1:
        raise RuntimeError("harness: twin handler got %d messages for %r" % (len(res["twin"]), replay))
    record = res["twin"][0].record
    try:
        line = model_line(res)
    except Outside as e:
        ctx.stat("outside_quantifier:" + str(e))
        return
    key = (c["message"], line)
    ctx.case(key, nontrivial=interesting(c, record))
    ctx.stat("stream:" + tag)
    for k, n in c["hist"].items():
        ctx.stat(k, n)
    ctx.stat("exception:" + ("none" if record["exception"] is None else (c["exc"][0] if c["exc"] else "?")))
    if res["err"] is not None:
        ctx.stat("impl_err:" + canon_err(res["err"]))
    for what, k in oracle(c, res):
        ctx.violation(what + "  [message=%r]" % c["message"][:60], dict(replay, expected="property C14", observed=what), key=k)
        break
    lines.append(line)
    c["_other_key"] = record_has_other_key(record)
    if c["_other_key"]:
        ctx.stat("record:nested-key-without-json-rule")
    pending.append((replay, impl_result(res), c))
    if len(ctx.samples) < 4:
        ctx.sample({"stream": tag, "message": c["message"], "extra": repr(record["extra"])[:200],
                    "impl": (str(res["out"][0])[:300] if res["out"] else repr(res["err"]))})


def run(ctx):
    rng = ctx.rng
    drv = core.Driver(DRIVER)
    boost = 1.5 if getattr(ctx, "search_boost", False) else 1
    stderr_keep = sys.stderr
    lines, pending = [], []

    # ---- stream 0: corpus (always first)
    for it in load_corpus():
        c = case_from_corpus(it)
        check_case(ctx, c, {"stream": "corpus", "file": it["_file"], "id": it.get("id"), "case": it}, lines, pending, "corpus")

    for wi, w in enumerate(WITNESSES):
        check_case(ctx, case_from_corpus(w), {"stream": "witness", "index": wi}, lines, pending, "witness")
    check_case(ctx, case_from_corpus(WITNESS_OUTSIDE), {"stream": "witness", "index": -1}, lines, pending, "witness")

    for hp in sorted(glob.glob(os.path.join(core.VERIF, "corpus", PROP, "*.json"))):
        with open(hp, encoding="utf8") as f:
            for hs in json.load(f).get("histories", []):
                check_history(ctx, gen_history(int(hs["history_seed"])), lines, pending)

    # ---- stream 1: logging calls on the real handler: direct oracle + model line
    n1 = int(ctx.n(3200, 50000) * boost)
    for i in range(n1):
        seed = rng.next()
        c = gen_case(seed)
        check_case(ctx, c, {"stream": "record", "case_seed": seed}, lines, pending, "record")

    # ---- stream 1h: HISTORIES on one long-lived serialize=True handler (level updates between records)
    for i in range(int(ctx.n(130, 1500) * boost)):
        check_history(ctx, gen_history(rng.next()), lines, pending)

    # ---- stream 1c: the except clause of emit: catch=True / catch=False handlers, unserialisable records in between
    catch_lines, catch_exp = [], []
    for i in range(int(ctx.n(70, 600) * boost)):
        check_catch_history(ctx, gen_catch_history(rng.next()), catch_lines, catch_exp)

    # ---- stream 1g: ONE call dispatched to several serialize=True handlers whose filters / format functions / sinks edit
    #      the shared record: each handler's line is judged against the record as THAT handler saw it
    for i in range(int(ctx.n(120, 3000) * boost)):
        check_multi_case(ctx, rng.next(), lines, pending)

    # ---- stream 1e: LARGE records (not sent to `loads`; the model line is kept for the smaller ones only)
    for i in range(ctx.n(4, 40)):
        seed = rng.next()
        c = gen_big_case(seed)
        big_lines, big_pending = [], []
        check_case(ctx, c, {"stream": "big", "case_seed": seed}, big_lines, big_pending, "big")
        if big_lines and len(big_lines[0]) < 60000:
            lines.extend(big_lines)
            pending.extend(big_pending)

    # ---- stream 1f: several threads through ONE serialize=True handler
    for i in range(ctx.n(3, 20)):
        check_threads_case(ctx, rng.next())

    # ---- stream 1d: serialize=True FILE sinks (half of them enqueue=True), read back line by line
    for i in range(ctx.n(12, 300)):
        check_sink_case(ctx, gen_sink_case(rng.next()))

    # ---- stream 1b: every code point of the low planes and the plane boundaries inside a message
    cps = list(range(0, 0x3000)) + [0xd7ff, 0xe000, 0xfffd, 0xfffe, 0xffff, 0x10000, 0x1fffe, 0x1ffff, 0x20000, 0xe0000,
                                    0xfffff, 0x100000, 0x10fffe, 0x10ffff] if not ctx.quick else \
        list(range(0, 0x100)) + [0x2028, 0x2029, 0xd7ff, 0xe000, 0xffff, 0x10000, 0x1f600, 0x10ffff]
    for cp in cps:
        c = case_from_corpus({"message": "a" + chr(cp) + "b", "extra": {"k" + chr(cp): [chr(cp)]}})
        check_case(ctx, c, {"stream": "codepoint", "cp": cp}, lines, pending, "codepoint")
    ctx.exhaustive = not ctx.quick
    n_model = len(lines)

    # ---- stream 2: colour is never applied unless requested (tty-like stream sink)
    import loguru._colorama as lcol
    col_lines, col_exp = [], []
    for i in range(ctx.n(60, 600)):
        seed = rng.next()
        c = colour_case(seed)
        for colorize in (None, False, True):
            res = run_impl(c, colorize=colorize, sink_factory=TtyStream)
            rep = {"stream": "colour", "case_seed": seed, "colorize": colorize}
            ctx.case(("colour", seed, colorize), nontrivial=True)
            ctx.stat("stream:colour")
            probs = oracle(c, res, explicit_colour=(colorize is True))
            if res["out"] and not probs:
                txt = json.loads(str(res["out"][0]))["text"]
                coloured = txt != str(res["twin"][0])
                if colorize is True and not coloured and not probs:
                    ctx.stat("colour_requested_but_plain")
                wants = lcol.should_colorize(TtyStream([]))
                col_lines.append("col %s 1 %d" % ("n" if colorize is None else int(colorize), int(wants)))
                col_exp.append((rep, "1" if coloured else "0"))
            for what, k in probs:
                ctx.violation(what + "  [tty sink, colorize=%r]" % (colorize,), dict(rep, expected="property C14", observed=what), key=k)
                break

    # ---- stream 3: Python-semantics streams against CPython's json (string level)
    sem_lines, sem_exp = [], []
    for i in range(ctx.n(2000, 30000)):
        s = gen_text(rng, 16)
        ea = rng.chance(30)
        sem_lines.append("esc %d %s" % (int(ea), enc(s)))
        sem_exp.append(("json.dumps(%r, ensure_ascii=%r)" % (s, ea), "ok " + enc(json.dumps(s, ensure_ascii=ea))))
    for i in range(ctx.n(2000, 30000)):
        tok = gen_json_string_token(rng)
        exp = py_scanstring(tok)
        if exp is None:
            continue
        sem_lines.append("dec " + enc(tok))
        sem_exp.append(("scanstring(%r)" % tok, exp))
    for i in range(ctx.n(300, 3000)):
        # the consumer model `readLines` against Python's own line iteration (newline="\n": LF is the only terminator,
        # which is what any reader sees on a text without CR)
        t = "\n".join(gen_text(rng, 6) for _ in range(rng.choice([0, 1, 2, 3, 5]))) + rng.choice(["", "\n", "\n\n"])
        exp_lines = io.StringIO(t, newline="\n").readlines()
        sem_lines.append("readlines " + enc(t))
        sem_exp.append(("readlines(%r)" % t, " ".join(["ok %d" % len(exp_lines)] + [enc(x) for x in exp_lines])))
    hist = {}

    def st(name):
        hist[name] = hist.get(name, 0) + 1
    for i in range(ctx.n(2500, 30000)):
        v = gen_value(rng, st)
        ea, df = rng.chance(15), not rng.chance(10)
        so, sk, an = rng.chance(15), rng.chance(10), not rng.chance(10)
        if so and sort_unmodelled(v):
            ctx.stat("sem:sort-unmodelled-skipped")
            so = False
        try:
            line = value_line(v, ea, df, so, sk, an)
        except Outside:
            continue
        try:
            exp = "ok " + enc(json.dumps(v, default=str if df else None, ensure_ascii=ea, sort_keys=so, skipkeys=sk,
                                         allow_nan=an))
        except Exception as e:  # noqa
            exp = "err " + canon_err(e)
        ctx.stat("sem:dumps:" + ("sort " if so else "") + ("skip " if sk else "") + ("nonan " if not an else "")
                 + ("other-key " if has_other_key(v) else "") + exp[:3].strip())
        sem_lines.append(line)
        sem_exp.append(("json.dumps(%r, default=%s, ensure_ascii=%r, sort_keys=%r, skipkeys=%r, allow_nan=%r)"
                        % (v, "str" if df else None, ea, so, sk, an), exp))
        if exp.startswith("ok ") and not ea:
            sem_lines.append("loads " + exp[3:])
            sem_exp.append(("json.loads(json.dumps(%r))" % (v,), exp))
    for e in ("[1,2]", '{"a":1,"b":[]}', "[1 ,2]", "[1,]", "{,}", '{"a" : 1}', "01", "-", "1.", "1e", "nul", "[", '"a', "1 2", "",
              "[NaN, -Infinity, Infinity]", "-0", "1E5", "1e+5", "0.5e-7", "[[[[[[[[[[1]]]]]]]]]]", "tru", "--1", "1.5.2", "+1"):
        try:
            v = json.loads(e)
            exp = "ok " + enc(json.dumps(v, ensure_ascii=False)) if e not in ("1E5", "1e+5", "0.5e-7", "-0") else None
        except ValueError:
            exp = "none"
        if e in ("[1 ,2]", '{"a" : 1}'):
            exp = "none"       # the model parser accepts Python's and the compact separators only (documented)
        if e == "01":
            exp = None         # leniency of the model parser on leading zeros (documented)
        if exp is not None:
            sem_lines.append("loads " + enc(e))
            sem_exp.append(("json.loads(%r)" % e, exp))

    # ---- model `loads` on the real handler outputs: must parse and re-dump to the identical text (same driver run)
    okays = [impl for (_, impl, _) in pending if impl.startswith("ok ") and len(impl) < 40000]
    okays = okays[::max(1, len(okays) // ctx.n(300, 5000))] if okays else []
    sel = ["loads " + enc(dec(impl[3:])[:-1]) for impl in okays if dec(impl[3:]).endswith("\n")]

    # ---- run the model
    out = drv.run(lines + col_lines + sem_lines + sel + catch_lines)
    n3 = n_model + len(col_lines) + len(sem_lines)
    o1, o2, o3, o4 = out[:n_model], out[n_model:n_model + len(col_lines)], out[n_model + len(col_lines):n3], out[n3:n3 + len(sel)]
    o5 = out[n3 + len(sel):]
    for (rep, impl, other_key), m in zip(catch_exp, o5):
        ctx.traces_validated += 1
        if m != impl:
            if other_key:
                ctx.broke("correspondence Json.handlerEmit on a record with a dictionary key json has no rule for (F33)",
                          "replay=%r\nimpl =%s\nmodel=%s" % (rep, impl[:300], m[:300]))
            else:
                ctx.broke("correspondence Json.handlerEmit (what a catch=True / catch=False handler does with the record)",
                          "replay=%r\nimpl =%s\nmodel=%s" % (rep, impl[:300], m[:300]))
                ctx.violation("implementation and model disagree on the outcome of emit: impl %s, model %s"
                              % (impl[:120], m[:120]), dict(rep, expected=m[:400], observed=impl[:400]), kind="correspondence")
    dis = 0
    loads_lines = []
    for (rep, impl, c), m in zip(pending, o1):
        ctx.traces_validated += 1
        if m != impl and c.get("_other_key"):
            # known finding F33: what the code does with such a key is modelled as it IS (TypeError); a disagreement
            # here means the MODEL of json's key handling is out of date, not that the property is violated
            ctx.broke("correspondence Json.emit on a record with a dictionary key json has no rule for (F33)",
                      "replay=%r\nimpl =%s\nmodel=%s" % (rep, show(impl), show(m)))
        elif m != impl:
            dis += 1
            ctx.stat("disagreements")
            if dis <= 3:
                ctx.broke("correspondence Json.emit (serialize=True handler output vs model)",
                          "replay=%r\nimpl =%s\nmodel=%s" % (rep, show(impl), show(m)))
            ctx.violation("implementation and model disagree on the serialised line: impl %s, model %s  [message=%r]"
                          % (show(impl)[:200], show(m)[:200], c["message"][:60]),
                          dict(rep, expected=show(m), observed=show(impl)), kind="correspondence")
    for (rep, exp), m in zip(col_exp, o2):
        ctx.evaluations += 1
        if m != exp:
            ctx.broke("correspondence Json.handlerColorize", "replay=%r impl coloured=%s model=%s" % (rep, exp, m))
            ctx.violation("colour applied=%s but the model of add() says %s" % (exp, m), dict(rep, expected=m, observed=exp),
                          kind="correspondence")
    bad = 0
    for (what, exp), m in zip(sem_exp, o3):
        ctx.evaluations += 1
        ctx.stat("stream:python-semantics")
        if m != exp and "sort_keys=True" in what and exp.startswith("err ") and m.startswith("err "):
            # under sort_keys CPython interleaves sorting a dict with encoding its earlier (sorted) siblings; the model
            # encodes in insertion order and sorts afterwards: which of two errors comes first may differ (sort_keys is
            # off in loguru; the branch exists for the refuted alternative)
            ctx.stat("sem:sort-error-order-tolerated")
            continue
        if m != exp:
            bad += 1
            if bad <= 3:
                ctx.broke("correspondence Py.JsonStr / Json.dumps / Json.loads vs CPython json",
                          "%s\nexpected %s\nmodel    %s" % (what, show(exp), show(m)))
    # ---- model `loads` on the real handler outputs: must parse and re-dump to the identical text
    if sel:
        badl = 0
        for l, m in zip(sel, o4):
            ctx.evaluations += 1
            ctx.stat("stream:model-loads-on-impl-output")
            if m != "ok " + l[6:]:
                badl += 1
                if badl <= 3:
                    ctx.broke("correspondence Json.loads on real output", "input %s\nmodel %s" % (show("ok " + l[6:]), show(m)))
    sys.stderr = stderr_keep
    seen, uniq = set(), []
    for b in ctx.broken:
        if b["name"] not in seen:
            seen.add(b["name"])
            uniq.append(b)
    ctx.broken[:] = uniq


def show(res):
    if res.startswith("ok "):
        try:
            return "ok " + repr(" ".join(dec(t) for t in res[3:].split(" ")))
        except ValueError:
            return res
    return res


# ----------------------------------------------------------------------------- replay
def replay_history(r):
    h = gen_history(r["history_seed"])
    explicit = h["variant"][1].get("colorize") is True
    print("history seed %d: handler variant %s, format %r" % (h["seed"], h["variant"][0], h["format"][0]))
    found = []
    state = {"i": 0}

    def on_record(i, c, res):
        for j in range(state["i"], i):
            st = h["steps"][j]
            if st[0] == "level":
                print("  step %2d  logger.level(%r, %s)" % (j, st[1], ", ".join("%s=%r" % kv for kv in sorted(st[2].items()))))
            elif st[0] == "rename":
                print("  step %2d  current %s renamed to %r" % (j, st[1], st[2]))
        state["i"] = i + 1
        rec = res["twin"][0].record if res["twin"] else None
        probs = oracle(c, res, explicit_colour=explicit)
        print("  step %2d  log(%r, %r)%s -> record.level=%r" % (i, c["level"], c["message"][:30],
              " patch=%r" % (c["patch"],) if c["patch"] else "", rec["level"] if rec else None))
        if probs or i == r.get("step"):
            print("           impl: %s" % (repr(str(res["out"][0]))[:400] if res["out"] else "nothing emitted, error %r" % (res["err"],)))
        for what, _ in probs:
            print("           ORACLE: " + what)
            found.append((i, what))
    run_history(h, on_record)
    print("REPRODUCED" if found else "not reproduced")
    return 1 if found else 0


def replay_catch(r):
    h = gen_catch_history(r["history_seed"])
    print("catch history seed %d: serialize=True handler with catch=%r, format %r" % (h["seed"], h["catch"], h["format"][0]))
    found = []

    def on_record(i, c, res):
        probs = catch_oracle(h, c, res)
        print("  step %d  log(%r, %r) bind=%r -> sink got %d message(s), raised %r, %d stderr report(s)"
              % (i, c["level"], c["message"][:30], c["bind"], len(res["out"]), res["err"],
                 res["stderr"].count("--- Logging error in Loguru Handler")))
        for what, _ in probs:
            print("           ORACLE: " + what)
            found.append((i, what))
    run_catch_history(h, on_record)
    print("REPRODUCED" if found else "not reproduced")
    return 1 if found else 0


def replay(ctx, rep):
    r = rep["replay"]
    stream = r.get("stream")
    if stream == "history":
        return replay_history(r)
    if stream == "catch":
        return replay_catch(r)
    if stream == "sink":
        return replay_sink(r)
    if stream == "multi":
        return replay_multi(r)
    if stream == "threads":
        probs = []
        for attempt in range(1, 41):          # a race between threads: the same plan is run until it shows (at most 40 times)
            plans, got, errors = run_threads_case(r["threads_seed"])
            probs = threads_oracle(plans, got, errors)
            if probs:
                break
        print("threads seed %d: %d threads x %d calls on one serialize=True handler, %d messages, %d calls raised (attempt %d)"
              % (r["threads_seed"], len(plans), len(plans[0]), len(got), len(errors), attempt))
        for what in probs[:10]:
            print("  ORACLE: " + what)
        print("REPRODUCED" if probs else "not reproduced in 40 attempts (a race between threads)")
        return 1 if probs else 0
    if stream == "big":
        c = gen_big_case(r["case_seed"])
    elif stream in ("record", "colour"):
        c = gen_case(r["case_seed"])
    elif stream == "corpus":
        c = case_from_corpus(r["case"])
    elif stream == "witness":
        c = case_from_corpus(WITNESSES[r["index"]] if r["index"] >= 0 else WITNESS_OUTSIDE)
    elif stream == "codepoint":
        cp = r["cp"]
        c = case_from_corpus({"message": "a" + chr(cp) + "b", "extra": {"k" + chr(cp): [chr(cp)]}})
    else:
        print("unknown replay stream %r" % stream)
        return 2
    kw = {}
    if stream == "colour":
        c = colour_case(r["case_seed"])
        kw = {"colorize": r["colorize"], "sink_factory": TtyStream}
    res = run_impl(c, **kw)
    print("message   : %r" % c["message"])
    print("format    : %r   level: %r   exception: %r" % (c["format"][0], c["level"], c["exc"]))
    print("patch     : %r   bind: %r   contextualize: %r" % (c["patch"], c["bind"], c["ctx"]))
    if res["twin"]:
        print("extra     : %r" % (res["twin"][0].record["extra"],))
    print("impl      : %s" % (repr(str(res["out"][0])) if res["out"] else "nothing emitted, error %r" % (res["err"],)))
    probs = oracle(c, res, explicit_colour=(stream == "colour" and r["colorize"] is True))
    for what, _ in probs:
        print("oracle    : " + what)
    bad = bool(probs)
    try:
        m = core.Driver(DRIVER).run([model_line(res)])[0]
        print("model     : %s" % show(m))
        if stream != "colour" and m != impl_result(res):
            print("model and implementation disagree")
            bad = True
    except Exception as e:  # noqa
        print("model     : not available (%s)" % e)
    print("REPRODUCED" if bad else "not reproduced")
    return 1 if bad else 0
