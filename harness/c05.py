"""C05 – messages and handler formats follow Python's own str.format semantics (DESIGN §4 C05)."""
import datetime as pydt
import itertools
import json
import os
import re
import string
import types
import _string

from harness import core
from harness.core import enc, dec

PROP = "C05"
LEAN_TARGETS = ["LoguruModel.Props.C05"]
AUDIT_FILE = "LoguruModel/Audit/C05.lean"
DRIVER = "C05"
RULE = ("templates from a grammar (literals, {{ }}, fields with auto/numbered/named heads, .attr/[key] "
        "accessors, !r !s !a, specs, nested fields in specs up to depth 3, ~10 % malformed) plus random "
        "strings over the alphabet '{}!:[].0ar<' (exhaustive up to length 6 in the thorough tier); every "
        "template is judged by Python's own str.format / format_map on the same objects (direct oracle) "
        "and by the Lean model (correspondence); non-trivial = parses, has >= 1 field and >= 1 of "
        "{conversion, spec, nested field, doubled brace, accessor}; distinct by (stream, template, arguments)")
TRUSTED = [
    "Py/FormatSyntax.lean and Py/VFormat.lean are modelled from CPython's unicode_format.h, validated on every "
    "run against string.Formatter().parse, _string.formatter_field_name_split and str.format",
    "AnsiParser.feed/strip are taken as the identity on markup-free text (markup is area Markup / C06)",
    "__format__/__getattr__/__getitem__/repr of user objects are oracles (parameters of the theorems)",
]
ASSUMPTIONS = ["ASCII digits in field names (str.isdigit vs decimal digits differ on e.g. superscripts)",
               "field indices below 2**63 (get_integer overflow is not modelled)"]

F21_KEY = "C05-colors-recursion-depth-escaped-braces"

PERR = {
    "Single '}' encountered in format string": "singleClose",
    "Single '{' encountered in format string": "singleOpen",
    "unexpected '{' in field name": "openInName",
    "end of string while looking for conversion specifier": "endConv",
    "expected ':' after conversion specifier": "expectedColon",
    "unmatched '{' in format spec": "unmatchedSpec",
    "expected '}' before end of string": "expectedClose",
}
NERR = {
    "Empty attribute in format string": "emptyAttr",
    "Missing ']' in format string": "missingBracket",
    "Only '.' or '[' may follow ']' in format field specifier": "badFollow",
}


# ----------------------------------------------------------------------------- CPython side of the syntax streams
def py_parse(t):
    out, err = [], "ok"
    try:
        for lit, name, spec, conv in string.Formatter().parse(t):
            if name is None:
                out.append(enc(lit) + ",N")
            else:
                out.append("%s,F,%s,%s,%s" % (enc(lit), enc(name), enc(spec), "N" if conv is None else enc(conv)))
    except ValueError as e:
        err = "err:" + PERR.get(str(e), "other(%s)" % e)
    return " ".join([err] + out)


def py_split(name):
    try:
        first, rest = _string.formatter_field_name_split(name)
    except ValueError as e:
        return "skip"
    head = "num,%d" % first if isinstance(first, int) else "name," + enc(first)
    out, err = [], "ok"
    try:
        for is_attr, v in rest:
            out.append("A," + enc(v) if is_attr else ("I,%d" % v if isinstance(v, int) else "K," + enc(v)))
    except ValueError as e:
        if "Too many" in str(e):
            return "skip"
        err = "err:" + NERR.get(str(e), "other(%s)" % e)
    return " ".join([head, err] + out)


def ascii_only_digits(s):
    return all((not c.isdigit() and not c.isdecimal()) or c in "0123456789" for c in s)


# ----------------------------------------------------------------------------- symbolic universe (mirrors drivers/C05.lean)
class SymStr(str):
    def __format__(self, spec):
        if spec.startswith("x"):
            raise ValueError("spec")
        return "⟦%s|%s⟧" % (str.__str__(self), spec)


class Sym:
    def __init__(self, path):
        object.__setattr__(self, "_p", path)

    def __getattr__(self, n):
        if n.startswith("__") or n.startswith("x"):
            raise AttributeError(n)
        return Sym(self._p + "." + n)

    def __getitem__(self, k):
        if isinstance(k, int):
            if k >= 5:
                raise IndexError(k)
            return Sym("%s[%d]" % (self._p, k))
        if k.startswith("x"):
            raise KeyError(k)
        return Sym("%s[%s]" % (self._p, k))

    def __repr__(self):
        return SymStr(self._p + "!r")

    def __str__(self):
        return SymStr(self._p + "!s")

    def __format__(self, spec):
        if spec.startswith("x"):
            raise ValueError("spec")
        return "⟦%s|%s⟧" % (self._p, spec)


class ExcSym(Sym):
    """the `exception` entry of the formatter record: formats to '' with an empty spec"""
    def __format__(self, spec):
        if spec == "":
            return ""
        return Sym.__format__(self, spec)


def res_of(fn):
    try:
        return ("ok", fn())
    except Exception as e:  # noqa
        return ("err", core.err_kind(e))


def show_res(r):
    return "ok " + enc(r[1]) if r[0] == "ok" else "err " + r[1]


# ----------------------------------------------------------------------------- template grammar
IDENTS = ["a", "b", "w", "k", "name", "x1", "é", "a1", "_p", "msg"]
LITS = ["", "a", " ", "ab c", "é", "{{", "}}", "{{}}", "x{{y", "}}{{", "%s", "\\", "!", ":", "[", "]", ".", "0", "<", ">",
        "\n", "\t", "a:b", "{{0}}", "]]", "⟦", "|"]
SPECS_SYM = ["", ">10", "x", "^8", " ", "0", "a:b", "!r", "[", "]", ".2f", "é", "<",
             # text that would be colour markup if it were literal text: must reach __format__ verbatim
             "<>8", "><8", "<b>", "</b>", "<b>x</b>", "\\<b>", "%H<b>%M</b>", "<red>", "</>", "<fg 1,2,3>", "<nosuchtag>", ">", "<<", "\\"]
CONVS = ["r", "s", "a", "x", "}", "!", ":", "R", " "]


def gen_name(rng, mode, kws, nargs, accessor_pct=35):
    """mode: auto | manual | named | mixed"""
    m = mode if mode != "mixed" else rng.choice(["auto", "manual", "named"])
    if m == "auto":
        head = ""
    elif m == "manual":
        head = str(rng.below(max(nargs, 1) + (1 if rng.chance(10) else 0)))
        if rng.chance(5):
            head = "0" + head
    else:
        head = rng.choice(kws) if kws and not rng.chance(8) else rng.choice(IDENTS + ["1a", "a-b", "a b"])
    acc = ""
    while rng.chance(accessor_pct) and len(acc) < 12:
        k = rng.below(10)
        if k < 4:
            acc += "." + rng.choice(["real", "b", "c", "x", "a1", "é"])
        elif k < 7:
            acc += "[%s]" % rng.choice(["0", "1", "4", "7", "k", "a b", "x", "!", ":", "}", "{", "é", "01"])
        elif k == 7:
            acc += rng.choice([".", "[", "]", "..", "[]", "]x", "[0]x", "[0"])
        else:
            acc += rng.choice([".real", "[0]", "[k]"])
    return head + acc


def gen_field(rng, mode, kws, nargs, depth, specs, convs_pct=25):
    name = gen_name(rng, mode, kws, nargs)
    conv = ""
    if rng.chance(convs_pct):
        conv = "!" + (rng.choice(CONVS[:3]) if not rng.chance(12) else rng.choice(CONVS))
    spec = ""
    if rng.chance(45):
        k = rng.below(10)
        if depth > 0 and k < 5:
            inner = gen_field(rng, mode, kws, nargs, depth - 1, specs)
            spec = ":" + rng.choice(["", ">", "^", "0", "x", "<", "</", "\\<"]) + inner + rng.choice(["", "", ".2", "d", ">", ">"])
        elif depth > 0 and k == 5:
            spec = ":" + rng.choice(["{{}}", "{{", "}}", "{{a}}", "{{%Y}}", "}{", "{}{}"])
        else:
            spec = ":" + rng.choice(specs)
    return "{" + name + conv + spec + "}"


def gen_template(rng, mode, kws, nargs, specs=SPECS_SYM, maxdepth=2, lits=LITS):
    n = rng.range(0, 6)
    parts = []
    for _ in range(n):
        if rng.chance(45):
            parts.append(rng.choice(lits))
        else:
            d = rng.choice([0, 0, 1, 1, 2, 3]) if maxdepth >= 3 else rng.choice([0, 0, 1, 1, 2])
            parts.append(gen_field(rng, mode, kws, nargs, min(d, maxdepth), specs))
    t = "".join(parts)
    if rng.chance(10):  # malformed: drop / insert one character
        if t and rng.chance(50):
            i = rng.below(len(t))
            t = t[:i] + t[i + 1:]
        else:
            i = rng.below(len(t) + 1)
            t = t[:i] + rng.choice("{}!:[].") + t[i:]
    return t


ADV = list("{}!:[].0ar<") + ["{{", "}}", "{}", "{0}", "{a}", "!r", ":{", "[}]"]


def gen_adversarial(rng, maxlen=8):
    return "".join(rng.choice(ADV) for _ in range(rng.range(0, maxlen)))


# ----------------------------------------------------------------------------- shapes of the known findings
def parse_lenient(t):
    try:
        return list(string.Formatter().parse(t))
    except ValueError:
        out = []
        try:
            for x in string.Formatter().parse(t):
                out.append(x)
        except ValueError:
            pass
        return out


def literals_lt_free(t):
    """the TOP-LEVEL literal texts of the template (the only texts loguru may read as colour markup)
    hold no '<'; format specs and field names may hold anything"""
    return all("<" not in lit for lit, _n, _s, _c in parse_lenient(t))


def markup_free_for_model(t):
    """make a generated template markup-free in the sense of the Lean model: keep '<' inside fields,
    remove it when it sits in top-level literal text (e.g. after a malformed field turned a spec into text)"""
    return t if literals_lt_free(t) else t.replace("<", "(")


def fields_at(t, level=0, maxlevel=3):
    """(level, field_name, spec) of every field the formatters may reach"""
    out = []
    for _lit, name, spec, _conv in parse_lenient(t):
        if name is not None:
            out.append((level, name, spec))
            if level < maxlevel and spec:
                out += fields_at(spec, level + 1, maxlevel)
    return out


def f21_shape(t):
    """a field inside a format spec whose own spec contains '{' (a third nesting level): str.format
    refuses it with ValueError before evaluating anything there, string.Formatter-style code evaluates
    that level (renders it when it only holds escaped braces, or raises the lookup error of its fields)"""
    return any(lvl == 1 and "{" in spec for lvl, _name, spec in fields_at(t))


def py_static_invalid(t, levels=3):
    """Python's own parser says: whatever the record holds, str.format cannot render this template
    (syntax error somewhere within the three nesting levels str.format/loguru look at, or a field on a
    fourth level).  loguru parses eagerly and reports these with ValueError before any lookup; Python
    parses lazily and may report an earlier lookup error instead – both fail, which is what C05 asks."""
    if levels == 0:
        return True
    try:
        ps = list(string.Formatter().parse(t))
    except ValueError:
        return True
    return any(name is not None and py_static_invalid(spec, levels - 1) for _l, name, spec, _c in ps)


def same_failure(got, py, full):
    """`got` (logging) and `py` (format_map) are the same outcome, reading 'fails the same way' as: same
    exception class, or ValueError for a template Python cannot render for any record"""
    if got == py:
        return True
    if got[0] == "err" and py[0] == "err":
        return got[1] == py[1] or (got[1] == "ValueError" and py_static_invalid(full))
    return False


class _ThreeLevelFormatter(string.Formatter):
    """str.format's numbering rule (first component, via CPython's own field_name_split) combined with
    string.Formatter._vformat's depth guard (`< 0`, unconditional recursion into the spec): what the
    coloured path is known to compute (finding F21).  Only used to CLASSIFY a disagreement as F21."""

    def _vformat(self, format_string, args, kwargs, used_args, recursion_depth, auto_arg_index=0):
        if recursion_depth < 0:
            raise ValueError("Max string recursion exceeded")
        result = []
        for literal_text, field_name, format_spec, conversion in self.parse(format_string):
            if literal_text:
                result.append(literal_text)
            if field_name is not None:
                first, _ = _string.formatter_field_name_split(field_name)
                if first == "":
                    if auto_arg_index is False:
                        raise ValueError("cannot switch from manual field specification to automatic field numbering")
                    field_name = str(auto_arg_index) + field_name
                    auto_arg_index += 1
                elif isinstance(first, int):
                    if auto_arg_index:
                        raise ValueError("cannot switch from manual field specification to automatic field numbering")
                    auto_arg_index = False
                obj, arg_used = self.get_field(field_name, args, kwargs)
                used_args.add(arg_used)
                obj = self.convert_field(obj, conversion)
                format_spec, auto_arg_index = self._vformat(format_spec, args, kwargs, used_args, recursion_depth - 1,
                                                            auto_arg_index=auto_arg_index)
                result.append(self.format_field(obj, format_spec))
        return "".join(result), auto_arg_index


def formatter_vformat(t, args, kwargs):
    return res_of(lambda: _ThreeLevelFormatter().vformat(t, args, kwargs))


# ----------------------------------------------------------------------------- implementation access
class Impl:
    def __init__(self):
        from loguru import logger
        import loguru._colorizer as col
        self.logger = logger
        self.Colorizer = col.Colorizer
        try:
            logger.remove()
        except ValueError:
            pass
        self.got = []
        self.hid = logger.add(self.got.append, format="{message}", catch=False, colorize=False, level=0)

    def close(self):
        try:
            self.logger.remove()
        except ValueError:
            pass

    def message(self, t, args, kwargs, colors=False, record=False, lazy=False):
        """record["message"] of logger.info(t, *args, **kwargs), or the exception class"""
        self.got.clear()
        log = self.logger.opt(colors=colors, record=record, lazy=lazy) if (colors or record or lazy) else self.logger
        if lazy:
            args = [(lambda v=v: v) for v in args]
            kwargs = {k: (lambda v=v: v) for k, v in kwargs.items()}
        try:
            log.info(t, *args, **kwargs)
        except Exception as e:  # noqa
            return ("err", core.err_kind(e))
        if len(self.got) != 1:
            return ("err", "nothing-emitted")
        m = self.got[0]
        return ("ok", m.record["message"])

    def call(self, msg, args, kwargs, opts, bind=None):
        """one logging call with opt(**opts): ('ok', record) or ('err', kind); the record is the one the sink received"""
        self.got.clear()
        log = self.logger.bind(**bind) if bind else self.logger
        if opts:
            log = log.opt(**opts)
        try:
            log.info(msg, *args, **kwargs)
        except Exception as e:  # noqa
            return ("err", core.err_kind(e))
        if len(self.got) != 1:
            return ("err", "nothing-emitted")
        return ("ok", self.got[0].record)

    def prepare_format(self, t):
        return res_of(lambda: self.Colorizer.prepare_format(t).strip())

    def prepare_message(self, t, args, kwargs):
        return res_of(lambda: self.Colorizer.prepare_message(t, args, kwargs).stripped)

    def emit(self, fmt, dynamic, colorize, msg, args=(), kwargs=None, raw=False, patch=None, exception=None, colors=False):
        """text handed to a callable sink added with format=fmt; ('adderr', kind) when add() refuses"""
        out = []
        kw = {} if kwargs is None else kwargs
        try:
            hid = self.logger.add(out.append, format=(lambda r: fmt) if dynamic else fmt, colorize=colorize,
                                  catch=False, level=0)
        except Exception as e:  # noqa
            return ("adderr", core.err_kind(e)), None
        try:
            log = self.logger
            if patch is not None:
                log = log.patch(patch)
            if raw or exception is not None or colors:
                log = log.opt(raw=raw, exception=exception, colors=colors)
            try:
                log.info(msg, *args, **kw)
            except Exception as e:  # noqa
                return ("err", core.err_kind(e)), None
            if len(out) != 1:
                return ("err", "nothing-emitted"), None
            return ("ok", str(out[0])), out[0].record
        finally:
            self.logger.remove(hid)


# ----------------------------------------------------------------------------- real values for the direct oracle
class Pt:
    def __init__(self):
        self.a = 1
        self.b = types.SimpleNamespace(c="x", d=[1, 2])

    def __repr__(self):
        return "Pt<>"

    def __format__(self, spec):
        return "P(%s)" % spec


class FmtStr(str):
    """a str SUBCLASS argument with its own __format__/__str__/__repr__: no shortcut through the character data is correct"""
    def __format__(self, spec):
        return "F(%s|%s)" % (str.__str__(self), spec)

    def __str__(self):
        return "S!" + str.__str__(self)

    def __repr__(self):
        return "R!" + str.__str__(self)


class FmtInt(int):
    def __format__(self, spec):
        return FmtStr("I%d:%s" % (int(self), spec))      # __format__ returning an instance of a str subclass


class Dyn:
    """attribute and item access computed on the fly; format() differs from str()"""
    def __getattr__(self, n):
        if n.startswith("_") or n == "zz":
            raise AttributeError(n)
        return FmtStr("attr-" + n)

    def __getitem__(self, k):
        if k in ("nokey", 9, "9"):
            raise KeyError(k)
        return FmtInt(len(str(k)))

    def __format__(self, spec):
        if spec == "boom":
            raise ZeroDivisionError(spec)
        return "D<%s>" % spec

    def __str__(self):
        return "str(Dyn)"

    def __repr__(self):
        return "repr(Dyn)"


VALUES = [
    ("int", [0, 7, -3, 255, 1234]), ("float", [3.14159, 0.0, 250.0, -2.5]), ("str", ["abc", "", "é{x}", "a b", "<r>"]),
    ("list", [[1, 2, 3], ["a", "b"]]), ("dict", [{"k": 5, "a b": "z", "0": "s0", 0: "i0"}]),
    ("dt", [pydt.datetime(2020, 1, 2, 3, 4, 5)]), ("obj", [Pt()]), ("none", [None]), ("bool", [True]),
    ("strsub", [FmtStr("abc"), FmtStr("")]), ("intsub", [FmtInt(7)]), ("dyn", [Dyn()]),
]
ACC = {"int": [".real", ".imag", ".numerator"], "float": [".real"], "str": ["[0]", ".missing"], "list": ["[0]", "[1]", "[9]"],
       "dict": ["[k]", "[a b]", "[0]", "[nokey]"], "dt": [".year", ".month"], "obj": [".a", ".b.c", ".b.d[1]", ".zz"],
       "none": [".x"], "bool": [".real"], "strsub": ["[0]", ".missing"], "intsub": [".real", ".numerator"],
       "dyn": [".a", ".b.c", "[k]", "[0]", "[nokey]", ".zz", "[k].real"]}
SPEC = {"int": ["", "05d", "x", "+", ",", ">6", "08.3f", "s", "{w}", ">{w}", "0{w}d", "<>6", "><{w}", "<<4"],
        "float": ["", ".2f", "e", "10.3", "{w}.{p}f", "d", "<>9.1f"],
        "str": ["", ">8", "^10", ".2", "*<6", "{w}", "d", "^{w}", "<>8", "><8", "<>{w}", "<b>", "/>7"],
        "list": ["", ">12", "d"], "dict": ["", "<30"],
        "dt": ["", "%Y", "%H:%M", "{{%Y}}", "{w}", "%H<b>%M</b>", "<%Y>", "\\<b>%d", "<red>%S</red>", "</>%j"],
        "obj": ["", "q", "{w}", "{{z}}", "{w:{{}}}", "<b>", "</b>", "\\<b>", "<red>x</red>", "</>", "<{w}>", "<nosuchtag>"],
        "none": ["", ">6"], "bool": ["", "d", ">6"], "strsub": ["", ">8", "q", "{w}", "<>8"], "intsub": ["", "05d", "{w}"],
        "dyn": ["", "q", "boom", "{w}", "<b>", "{{z}}"]}


def gen_real_case(rng):
    """a message template with real arguments: (template, args, kwargs)"""
    nargs = rng.range(0, 4)
    picks = [rng.choice(VALUES) for _ in range(nargs)]
    args = [rng.choice(vals) for _k, vals in picks]
    kinds = [k for k, _v in picks]
    kwargs = {"w": rng.choice([3, 8, 12]), "p": 2}
    kkinds = {"w": "int", "p": "int"}
    for nm in ("a", "name", "é"):
        if rng.chance(40):
            k, vals = rng.choice(VALUES)
            kwargs[nm] = rng.choice(vals)
            kkinds[nm] = k
    if rng.chance(10):
        kwargs, kkinds = {}, {}
    mode = rng.choice(["auto", "auto", "manual", "manual", "named", "mixed"])
    parts = []
    auto_i = 0
    for _ in range(rng.range(0, 5)):
        if rng.chance(40):
            parts.append(rng.choice(LITS[:14] + ["<", "a < b", ">"]))
            continue
        m = mode if mode != "mixed" else rng.choice(["auto", "manual", "named"])
        if m == "auto" and nargs:
            head, kind = "", kinds[auto_i % nargs]
            auto_i += 1
        elif m == "manual" and nargs:
            i = rng.below(nargs)
            head, kind = str(i), kinds[i]
        elif kkinds:
            head = rng.choice(sorted(kkinds))
            kind = kkinds[head]
        else:
            head, kind = rng.choice(["", "0", "a"]), "int"
        acc = rng.choice(ACC[kind]) if rng.chance(35) else ""
        conv = ""
        k2 = kind if not acc else None
        if rng.chance(25):
            conv = "!" + rng.choice("rsa")
            k2 = "str"
        spec = ""
        if rng.chance(50):
            spec = ":" + rng.choice(SPEC.get(k2 or "str", [""]) if not rng.chance(10) else ["{}", "{0}", "{a}", "{w:{p}}", "{w:{{}}}"])
        parts.append("{" + head + acc + conv + spec + "}")
    t = "".join(parts)
    if rng.chance(7):
        i = rng.below(len(t) + 1)
        t = t[:i] + rng.choice("{}!:[].") + t[i:]
    return t, args, kwargs


RECORD_FIELDS = ["message", "level", "level.name", "level.no", "level.icon", "name", "function", "line", "module", "file",
                 "file.name", "file.path", "process", "process.id", "process.name", "thread.name", "thread.id", "extra",
                 "extra[k]", "extra[n]", "extra[o]", "extra[o].a", "extra[o].b.c", "extra[missing]", "elapsed", "time", "exception",
                 "nosuchkey", "", "0", "level.nope", "extra[w]"]
RECORD_SPECS = {"extra[o]": ["", "<b>", "</b>", "<>8", "\\<b>", "<red>x</red>", "<{extra[w]}>", "</>"],
                "message": ["", ">12", "^{extra[w]}", "<{extra[w]}", ".3", "<>12", "><{extra[w]}"], "level.no": ["", "05d", "x", "{extra[w]}"],
                "level.name": ["", "<8", ">{extra[w]}"], "line": ["", "d", "04d"], "time": ["", "YYYY-MM-DD", "HH:mm:ss", "[{{]YYYY[}}]", "HH<b>mm</b>", "<YYYY>"],
                "extra[n]": ["", "03d", ".1f", "{extra[w]}d"], "level": ["", "<8"], "extra[k]": ["", ">6", "{{}}"]}


def gen_record_format(rng):
    parts = []
    for _ in range(rng.range(0, 6)):
        k = rng.below(10)
        if k < 4:
            parts.append(rng.choice(LITS[:14] + [" | ", " - ", "[", "]", ">", "a < b"]))
        else:
            name = rng.choice(RECORD_FIELDS) if not rng.chance(75) else rng.choice(RECORD_FIELDS[:25])
            conv = "!" + rng.choice("rsa") if rng.chance(20) else ""
            spec = ""
            if rng.chance(40):
                pool = RECORD_SPECS.get(name, ["", ">10", "{extra[w]}"]) if not conv else ["", ">14", "^{extra[w]}", ".4"]
                spec = ":" + rng.choice(pool)
            parts.append("{" + name + conv + spec + "}")
    t = "".join(parts)
    if rng.chance(8):
        i = rng.below(len(t) + 1)
        t = t[:i] + rng.choice("{}!:[].") + t[i:]
    return t


TAGS = ["red", "b", "bold", "green", "fg 255,0,0", "lvl", "level", "u", "bg #00ff00"]

MARKUP_SPECS = {"obj": ["<b>", "</b>", "<b>x</b>", "\\<b>", "</>", "<red>", "<nosuchtag>", "<{}>", "\\<{}>", "q", ""],
                "str": ["<>8", "><8", "<>{}", "/>6", "", ">4"],
                "dt": ["%H<b>%M</b>", "<%Y>", "\\<b>%d", "<red>%S</red>", "%H:%M"],
                "int": ["<>6", "><4", "05d", "<<3"]}
MARKUP_ARGS = {"obj": [Pt()], "str": ["x", "ab", "<i>"], "dt": [pydt.datetime(2020, 1, 2, 3, 4, 5)], "int": [7, 42]}


def gen_markup_message(rng):
    """a coloured MESSAGE: colour markup in the literal text, and format specs that look like markup.
    Returns (template, the same template with the literal-text markup removed, args).  Only the
    literal text is markup; every format spec must reach __format__ verbatim."""
    with_m, plain, args = [], [], []
    for _ in range(rng.range(1, 5)):
        k = rng.below(10)
        if k < 2:
            tag = rng.choice(TAGS)
            inner = rng.choice(["x", "at ", "é", "a b"])
            with_m.append("<%s>%s</%s>" % (tag, inner, tag if rng.chance(50) else ""))
            plain.append(inner)
        elif k < 3:
            tag = rng.choice(TAGS + ["/red", "nosuchtag", "/"])
            with_m.append("\\<%s>" % tag)
            plain.append("<%s>" % tag)
        elif k < 4:
            lit = rng.choice([" ", "|", "a < b", "->", "{{", "}}", "é"])
            with_m.append(lit)
            plain.append(lit)
        else:
            kind = rng.choice(["obj", "obj", "str", "dt", "int"])
            spec = rng.choice(MARKUP_SPECS[kind])
            args.append(rng.choice(MARKUP_ARGS[kind]))
            for _i in range(spec.count("{}")):
                args.append(rng.choice(["red", "b", 6, "/"]))
            conv = "!s" if (kind == "dt" and rng.chance(10)) else ""
            f = "{%s%s}" % (conv, ":" + spec if spec or rng.chance(30) else "")
            if rng.chance(35):          # the field sits inside a coloured span
                tag = rng.choice(TAGS)
                with_m.append("<%s>%s</%s>" % (tag, f, tag))
            else:
                with_m.append(f)
            plain.append(f)
    return "".join(with_m), "".join(plain), args


def gen_markup_format(rng):
    """(format with simple well-nested markup and escaped tags, the same format with markup removed)"""
    with_m, plain = [], []
    for _ in range(rng.range(1, 5)):
        k = rng.below(10)
        if k < 3:
            tag = rng.choice(TAGS)
            inner = rng.choice(["x", "{level}", "a {message} b", "{{", "", "{line:04d}"])
            with_m.append("<%s>%s</%s>" % (tag, inner, tag if rng.chance(50) else ""))
            plain.append(inner)
        elif k < 5:
            tag = rng.choice(TAGS + ["/red", "nosuchtag", "/"])
            with_m.append("\\<%s>" % tag)
            plain.append("<%s>" % tag)
        elif k < 8:
            f = rng.choice(["{message}", "{level.name:<8}", "{name!r}", "{extra[k]:>{extra[w]}}", "{{", "}}"])
            with_m.append(f)
            plain.append(f)
        else:
            lit = rng.choice([" ", "a < b", "->", "x>y", "é"])
            with_m.append(lit)
            plain.append(lit)
    return "".join(with_m), "".join(plain)


# ----------------------------------------------------------------------------- round 5: histories and emit decisions
SYMKEYS = ["name", "function", "module", "file", "line", "process", "thread", "time", "elapsed", "extra"]
ANSI_RE = re.compile("\x1b\\[[0-9;]*m")
TAG_RE = re.compile(r"</?[a-z]+>")


def run_dynseq(impl, seq):
    """log len(seq) records through ONE handler whose format function returns seq[j] for the j-th record"""
    pos, out = [0], []

    def patch(r):
        for k in SYMKEYS:
            r[k] = Sym(k)

    def fmt(record):
        return seq[pos[0]]
    hid = impl.logger.add(out.append, format=fmt, colorize=False, catch=False, level=0)
    got = []
    try:
        log = impl.logger.patch(patch)
        for j in range(len(seq)):
            pos[0] = j
            del out[:]
            try:
                log.info("msg")
                got.append(("ok", str(out[0])) if len(out) == 1 else ("err", "nothing-emitted"))
            except Exception as e:  # noqa
                got.append(("err", core.err_kind(e)))
    finally:
        impl.logger.remove(hid)
    return got


def judge_dynseq(seq, got):
    """first record whose text is not Python's format_map of its own template: (index, python result) or None"""
    env = {k: Sym(k) for k in SYMKEYS}
    env["exception"] = ExcSym("exception")
    env["message"], env["level"] = "msg", "L"
    for j, (t, g) in enumerate(zip(seq, got)):
        py = res_of(lambda: t.format_map(env))
        if not same_failure(g, py, t):
            return j, py
    return None


def gen_emitfull(rng):
    c = {"raw": rng.chance(50), "dynamic": rng.chance(40), "colorize": rng.chance(60), "colors": rng.chance(65),
         "patch": rng.choice(["none", "none", "same", "other", "samelen"]), "level": rng.choice(["INFO", "INFO", "C05LVL", 27, "WARNING"]),
         "late": rng.chance(30)}
    c["body"] = rng.choice(["he<red>ll</red>o {}", "<b>{}</b>", "<level>x{}</level>y", "plain {}", "a {} <green>b</green> {{"]) \
        if c["colors"] else rng.choice(["hello {}", "a{{b {}", "x < y {}"])
    c["arg"] = rng.choice([5, "v", 2.5])
    fmt = rng.choice(["{message}|{level.name}", "[{level.name}] {message}", "<green>{level.name}</green> <level>{message}</level>",
                      "{message}", "{level.no} {message:>3}"])
    if not c["colorize"] and "<" in fmt:
        fmt = "{message}|{level.name}"
    if c["colorize"] and c["colors"] and ":" in fmt:
        fmt = "{level.no} {message}"      # a spec on a coloured {message} is finding F10 (area Markup / C06)
    c["format"] = fmt
    return c


def run_emitfull(impl, c):
    """one call through one handler; returns (result, expected visible text, record message, violation text | None).
    Model-free oracle: raw => the visible text IS record["message"]; otherwise Python's format_map of the
    markup-free format over (message, level); no ANSI code without colorize, none for a replaced message in raw mode"""
    try:
        impl.logger.level("C05LVL", no=33, color="<blue>", icon="@")
    except (TypeError, ValueError):
        pass
    out = []
    level = c["level"]
    plain = TAG_RE.sub("", c["body"]).format(c["arg"]) if c["colors"] else c["body"].format(c["arg"])
    fmt = c["format"]

    def patch(r):
        if c["patch"] == "same":
            r["message"] = str(r["message"])
        elif c["patch"] == "other":
            r["message"] = "patched"
        elif c["patch"] == "samelen":
            r["message"] = "#" * len(r["message"])      # another text of the SAME length
    hid = impl.logger.add(out.append, format=(lambda r: fmt) if c["dynamic"] else fmt, colorize=c["colorize"], catch=False, level=0)
    try:
        if c["late"]:
            try:
                impl.logger.level("C05LATE", no=34, color="<yellow>")   # a level the handler has not seen at add()
            except (TypeError, ValueError):
                pass
            if level == "C05LVL":
                level = "C05LATE"
        log = impl.logger.opt(colors=c["colors"], raw=c["raw"]).patch(patch)
        try:
            log.log(level, c["body"], c["arg"])
            got = ("ok", str(out[0])) if len(out) == 1 else ("err", "nothing-emitted")
        except Exception as e:  # noqa
            got = ("err", core.err_kind(e))
    finally:
        impl.logger.remove(hid)
    recmsg = "patched" if c["patch"] == "other" else ("#" * len(plain) if c["patch"] == "samelen" else plain)
    lname = level if isinstance(level, str) else "Level %d" % level
    lno = {"INFO": 20, "WARNING": 30, "C05LVL": 33, "C05LATE": 34}.get(level, level)
    pyfmt = TAG_RE.sub("", fmt) if c["colorize"] else fmt
    exp = recmsg if c["raw"] else pyfmt.format_map({"message": recmsg, "level": types.SimpleNamespace(name=lname, no=lno)}) + \
        ("" if c["dynamic"] else "\n")
    vis = ANSI_RE.sub("", got[1]) if got[0] == "ok" else None
    bad = None
    where = "opt(colors=%r, raw=%r).log(%r, %r, %r) through a %s handler (colorize=%r, format %r), patcher: %s" % (
        c["colors"], c["raw"], level, c["body"], c["arg"], "dynamic" if c["dynamic"] else "static", c["colorize"], fmt, c["patch"])
    if got[0] != "ok" or vis != exp:
        bad = "%s: visible text %r, expected %r" % (where, vis if got[0] == "ok" else got, exp)
    elif (not c["colorize"] or (c["patch"] in ("other", "samelen") and c["raw"])) and "\x1b" in got[1]:
        bad = "%s: ANSI codes emitted %s: %r" % (where, "by a handler with colorize=False" if not c["colorize"] else
                                                 "for a message a patcher replaced (stale coloured message)", got[1])
    return got, exp, recmsg, bad


# ----------------------------------------------------------------------------- checks
def check_message(ctx, impl, t, args, kwargs, stream, colors):
    """direct oracle: record["message"] == t.format(*args, **kwargs) (or same exception class)"""
    exp = res_of(lambda: t.format(*args, **kwargs)) if (args or kwargs) else ("ok", t)
    got = impl.message(t, args, dict(kwargs), colors=colors)
    if got == exp:
        return True
    rep = {"stream": stream, "template": t, "args": [repr(a) for a in args], "kwargs": {k: repr(v) for k, v in kwargs.items()},
           "colors": colors, "expected": list(exp), "observed": list(got)}
    key = None
    if colors and (args or kwargs):
        alt = formatter_vformat(t, args, kwargs)
        if got == alt and f21_shape(t):
            key = F21_KEY
    ctx.violation("logger%s.info(%r, *%r, **%r): record['message'] expected %r, observed %r"
                  % (".opt(colors=True)" if colors else "", t, args, kwargs, exp, got), rep, key=key)
    return False


def check_emit(ctx, impl, extra, t, dynamic, colorize, raw, msg, margs, cmsg=None):
    """direct oracle for one handler format: emitted text == Python's format_map over the record.
    `cmsg` (round 5): the same message WITH colour markup in its literal text, logged through opt(colors=True);
    the visible text (ANSI codes removed) must be the same"""
    log = impl.logger.bind(**extra)
    saved, impl.logger = impl.logger, log
    try:
        got, rec = impl.emit(t, dynamic, colorize, cmsg if cmsg is not None else msg, args=margs, raw=raw, colors=cmsg is not None)
    finally:
        impl.logger = saved
    if cmsg is not None and got[0] == "ok":
        if not colorize and "\x1b" in got[1]:
            ctx.violation("handler format %r (colorize=False) emitted ANSI codes for a coloured message: %r" % (t, got),
                          {"stream": "emit", "format": t, "dynamic": dynamic, "colorize": colorize, "raw": raw, "message": msg,
                           "margs": list(margs), "cmsg": cmsg, "expected": "no ANSI code", "observed": list(got)})
        got = ("ok", ANSI_RE.sub("", got[1]))
    full = t if dynamic else t + "\n{exception}"
    rep = {"stream": "emit", "format": t, "dynamic": dynamic, "colorize": colorize, "raw": raw, "message": msg,
           "margs": list(margs), "cmsg": cmsg}
    if got[0] == "adderr":
        ctx.stat("emit:add_refused")
        fake = {"message": "m", "level": types.SimpleNamespace(name="INFO", no=20, icon="i"), "extra": extra,
                "exception": "", "time": pydt.datetime(2020, 1, 1), "elapsed": pydt.timedelta(0), "name": "n",
                "function": "f", "line": 1, "module": "m", "file": types.SimpleNamespace(name="f", path="p"),
                "process": types.SimpleNamespace(id=1, name="p"), "thread": types.SimpleNamespace(id=1, name="t")}
        py = res_of(lambda: full.format_map(fake))
        if py[0] == "ok" or got[1] != "ValueError":
            ctx.violation("add(format=%r) raised %s but Python formats the template" % (t, got[1]),
                          dict(rep, expected=list(py), observed=list(got)))
        return got
    if raw:
        expm = msg.format(*margs) if margs else msg
        if got != ("ok", expm):
            ctx.violation("opt(raw=True) with handler format %r emitted %r instead of the bare message %r" % (t, got, expm),
                          dict(rep, expected=["ok", expm], observed=list(got)))
        return got
    if rec is None:
        # the logging call raised: Python's format_map must raise the same class on the same record
        rec2 = _probe_record(impl, extra, msg, margs)
        py = res_of(lambda: full.format_map(rec2))
        ctx.stat("emit:raised:" + got[1])
        if not same_failure(got, py, t if dynamic else full):
            ctx.violation("handler format %r: logging raised %r, Python's format_map gives %r" % (t, got, py),
                          dict(rep, expected=list(py), observed=list(got)))
        return got
    rec2 = dict(rec)
    rec2["exception"] = ""
    py = res_of(lambda: full.format_map(rec2))
    if py != got:
        ctx.violation("handler format %r (dynamic=%r colorize=%r): emitted %r, Python's format_map gives %r"
                      % (t, dynamic, colorize, got, py), dict(rep, expected=list(py), observed=list(got)))
    return got


class StrSub(str):
    """a message that is an instance of a str subclass: str(message) is NOT its character data"""
    def __str__(self):
        return "str-of-message"


RECORD_NAMES = ["record[extra][q]", "record[extra][q].b", "record[extra][q][0]", "record[extra][q]!r", "record[extra][xno]",
                "record[xno]", "record[extra][q]:>{}", "record[extra][q]:{record[extra][q]}"]


def gen_logcall(rng):
    """one logging call over the symbolic universe with a rare-option combination:
    (template, nargs, kws, opts, failing lazy argument | None, message is a str-subclass instance)"""
    nargs = rng.range(0, 3)
    kws = [k for k in ["a", "b", "w"] if rng.chance(45)]
    opts = {"lazy": rng.chance(40), "capture": not rng.chance(30), "record": rng.chance(35), "colors": rng.chance(35)}
    if opts["record"] and rng.chance(12):
        kws.append("record")                     # the caller's own keyword named like the record: TypeError
    mode = rng.choice(["auto", "manual", "named", "mixed"])
    k = rng.below(10)
    if k < 2:
        t = rng.choice(["", "plain", "a{", "}", "{{}}", "{", "a {} b", "é"])
    elif k < 9:
        t = gen_template(rng, mode, kws or ["a"], nargs, maxdepth=2, lits=[l for l in LITS if "<" not in l])
    else:
        t = gen_adversarial(rng)
    if opts["record"] and rng.chance(60):
        nm = rng.choice(RECORD_NAMES)
        i = rng.below(len(t) + 1) if rng.chance(30) else len(t)
        t = t[:i] + "{" + nm + "}" + t[i:]
    t = markup_free_for_model(t.replace("!a", "!s"))
    fail = None
    if rng.chance(15):
        pool = ["@%d" % j for j in range(nargs)] + [k for k in kws]
        if pool:
            fail = rng.choice(pool)
    return t, nargs, kws, opts, fail, rng.chance(15)


def run_logcall(impl, t, nargs, kws, opts, fail, sub):
    """execute the call on the implementation: (result, trace of lazy calls, message object)"""
    trace = []

    def thunk(sym):
        def f():
            trace.append(sym)
            if sym == fail:
                raise KeyError(sym)
            return Sym(sym)
        return f
    wrap = thunk if opts["lazy"] else Sym
    args = [wrap("@%d" % j) for j in range(nargs)]
    kwargs = {k: wrap(k) for k in kws}
    msg = StrSub(t) if sub else t
    got = impl.call(msg, args, kwargs, opts, bind={"q": Sym("record[extra][q]")})
    return got, trace, msg


def logcall_python(t, nargs, kws, opts, fail, msg, rec):
    """what Python itself computes for the call (model-free): the arguments evaluated left to right, the
    record as one more keyword, str.format on the message iff there is an argument, str(message) otherwise"""
    order = ["@%d" % j for j in range(nargs)] + list(kws)
    if opts["lazy"] and fail in order:
        return ("err", "KeyError"), order[:order.index(fail) + 1]
    forced = order if opts["lazy"] else []
    if opts["record"] and "record" in kws:
        return ("err", "TypeError"), forced
    args = [Sym("@%d" % j) for j in range(nargs)]
    kwargs = {k: Sym(k) for k in kws}
    if opts["record"]:
        kwargs["record"] = rec
    if args or kwargs:
        return res_of(lambda: str.format(msg, *args, **kwargs)), forced
    return ("ok", str(msg)), forced


def real_case_from_replay(r):
    """rebuild the arguments of a replay from the deterministic generator state"""
    rng = core.Rng(0)
    rng.s = r["rng_state"]
    return gen_real_case(rng)


def nontrivial(t):
    try:
        ps = list(string.Formatter().parse(t))
    except ValueError:
        return False
    fs = [p for p in ps if p[1] is not None]
    return bool(fs) and any(p[3] or p[2] or ("." in p[1]) or ("[" in p[1]) for p in fs) or \
        (bool(fs) and any(p[0].endswith(("{", "}")) for p in ps))


def run(ctx):
    rng = ctx.rng.fork("c05")   # core.Rng(seed) streams of neighbouring seeds are shifts of one another; fork decorrelates
    drv = core.Driver(DRIVER)
    boost = 4 if getattr(ctx, "search_boost", False) else 1
    impl = Impl()
    try:
        _run(ctx, rng, drv, boost, impl)
    finally:
        impl.close()


def _run(ctx, rng, drv, boost, impl):
    # ---- known findings: probe their witnesses on every run (the Lean witnesses are the same inputs)
    for t, args, key, what in (
            # F5 (fixed by d5e7115): regressions, any disagreement is a plain violation
            ("{.real}", (1,), None, "opt(colors=True).info('{.real}', 1)"),
            ("{0.real}{}", (1,), None, "opt(colors=True).info('{0.real}{}', 1)"),
            ("{[0]}{.real}", ([5], 2), None, "opt(colors=True).info('{[0]}{.real}', [5], 2)"),
            ("{0:{0:{{%Y}}}}", (pydt.datetime(2020, 1, 2),), F21_KEY, "opt(colors=True).info('{0:{0:{{%Y}}}}', datetime)")):
        ctx.case(("witness", t))
        check_message(ctx, impl, t, list(args), {}, "witness", True)

    # ---- stream 0: corpus
    corpus = [
        ("{}", [1], {}, False), ("{0}{1}", ["a", "b"], {}, True), ("{a.real:>{w}}", [], {"a": 5, "w": 4}, True),
        ("{:{}} {}", [1, 5, 7], {}, True), ("{{{}}}", [1], {}, True), ("{!r:^7}", ["é"], {}, True),
        ("a{", [], {}, False), ("a{", [1], {}, False), ("{0[0]}{0[1]}", [[1, 2]], {}, True), ("{", [], {"k": 1}, True),
        ("{a[}]}", [], {"a": {"}": 3}}, True), ("{0!x}", [1], {}, True), ("{:{:{}}}", [1, 2, 3], {}, True),
        # round 5: a third nesting level AFTER a failing lookup - Python raises the lookup error, so must the coloured call
        # (colored_fails_like_python; outside the old guard `shallow`)
        ("{a}{0:{0:{{%Y}}}}", [1], {}, True), ("{0.nope}{0:{0:{{}}}}", [1], {}, True), ("{5}{0:{0:{0}}}", [1], {}, True),
    ]
    for t, args, kwargs, colors in corpus:
        ctx.case(("corpus", t, colors), nontrivial=True)
        check_message(ctx, impl, t, args, kwargs, "corpus", False)
        if colors:
            check_message(ctx, impl, t, args, kwargs, "corpus", True)

    # corpus files (minimised past disagreements)
    cdir = os.path.join(core.VERIF, "corpus", PROP)
    extra0 = {"k": "v1", "n": 42, "o": Pt(), "w": 9}
    for fn in sorted(os.listdir(cdir)) if os.path.isdir(cdir) else []:
        if not fn.endswith(".json"):
            continue
        for c in json.load(open(os.path.join(cdir, fn), encoding="utf8")).get("cases", []):
            ctx.stat("corpus_file_cases")
            if "template" in c:
                args = [eval(a, {"datetime": pydt, "Pt": Pt}) for a in c["args"]]
                kwargs = {k: eval(v, {"datetime": pydt, "Pt": Pt}) for k, v in c["kwargs"].items()}
                ctx.case(("corpusfile", c["template"], c.get("colors")), nontrivial=True)
                check_message(ctx, impl, c["template"], args, kwargs, "corpus", bool(c.get("colors")))
            else:
                ctx.case(("corpusfile", c["format"], c.get("dynamic"), c.get("raw")), nontrivial=True)
                check_emit(ctx, impl, extra0, c["format"], bool(c.get("dynamic")), bool(c.get("colorize")),
                           bool(c.get("raw")), "hello {x}", ())

    lines, expect = [], []   # correspondence lines and (kind, payload, python-side canonical text)

    # ---- stream 1: syntax (our reading of CPython): parse / field_name_split
    n1 = ctx.n(3000, 120000) * boost
    names = set()
    for i in range(n1):
        k = rng.below(10)
        if k < 6:
            t = gen_template(rng, rng.choice(["auto", "manual", "named", "mixed"]), IDENTS[:5], 3, maxdepth=3)
        else:
            t = gen_adversarial(rng)
        ctx.case(("parse", t), nontrivial=nontrivial(t))
        ctx.stat("syntax:parse")
        p = py_parse(t)
        ctx.stat("syntax:" + p.split(" ")[0])
        lines.append("parse " + enc(t))
        expect.append(("Py.Fmt.parse", t, p))
        for _l, nm, _s in fields_at(t):
            names.add(nm)
        if i < 2:
            ctx.sample({"stream": "syntax", "template": t, "python": p})
    if not ctx.quick:
        ctx.exhaustive = True
        alpha = "{}!:[].0ar<"
        for L in range(0, 7):
            for tup in itertools.product(alpha, repeat=L):
                t = "".join(tup)
                ctx.case(("parse", t))
                lines.append("parse " + enc(t))
                expect.append(("Py.Fmt.parse", t, py_parse(t)))
        ctx.stat("syntax:exhaustive_len<=6", sum(11 ** L for L in range(7)))
    for _ in range(ctx.n(500, 20000)):
        names.add(gen_name(rng, "mixed", IDENTS[:5], 3, accessor_pct=70))
        names.add("".join(rng.choice(list(".[]0a1x é")) for _ in range(rng.range(0, 6))))
    for n in range(0, 40):
        names.add(str(n))
        for suf in (".real", "[0]", ".a[k].b", "[", ".", "[x]y", "..", "[0].é"):
            names.add(str(n) + suf)     # `str(auto_arg_index) + field_name`: splits to (n, steps of the suffix)
    for nm in sorted(names):
        if not ascii_only_digits(nm):
            continue
        p = py_split(nm)
        if p == "skip":
            continue
        ctx.case(("split", nm))
        ctx.stat("syntax:split")
        lines.append("split " + enc(nm))
        expect.append(("Py.Fmt.fieldNameSplit", nm, p))

    # ---- stream 2: Colorizer.prepare_format(t).strip() vs the model, and the round-trip oracle:
    #      the re-serialised format parses to the same fields as the original (Python's own parser)
    n2 = ctx.n(3000, 100000) * boost
    for i in range(n2):
        k = rng.below(10)
        t = gen_template(rng, "named", ["message", "level", "extra"], 0, maxdepth=3, lits=[l for l in LITS if "<" not in l]) \
            if k < 7 else gen_adversarial(rng)
        t = markup_free_for_model(t)      # '<' only inside fields / format specs
        got = impl.prepare_format(t)
        ctx.case(("prep", t), nontrivial=nontrivial(t))
        ctx.stat("prepare_format:" + got[0])
        if got[0] == "ok":
            a, b = py_parse(t), py_parse(got[1])
            if a != b or not a.startswith("ok"):
                ctx.violation("prepare_format(%r).strip() = %r parses differently from the original" % (t, got[1]),
                              {"stream": "prep", "template": t, "expected": a, "observed": b})
        else:
            # refused at add(): Python must refuse the template too (for any record)
            if got[1] != "ValueError":
                ctx.violation("prepare_format(%r) raised %s" % (t, got[1]), {"stream": "prep", "template": t,
                              "expected": "ValueError or success", "observed": got[1]})
            env = {nm: Sym(nm) for nm in ["message", "level", "extra"] + IDENTS}
            py = res_of(lambda: t.format_map(env))
            if py[0] == "ok":
                ctx.violation("prepare_format(%r) raises ValueError but format_map accepts the template" % t,
                              {"stream": "prep", "template": t, "expected": py[1], "observed": "ValueError"})
        lines.append("prep " + enc(t))
        expect.append(("Format.prepareFormat", t, show_res(got)))

    # ---- stream 3: symbolic universe: str.format vs Py.Fmt.strFormat (our reading of CPython),
    #      prepare_message(...).stripped vs Format.coloredFormat, record["message"] vs Format.logMessage,
    #      and the direct oracle coloured == str.format
    n3 = ctx.n(4000, 150000) * boost
    for i in range(n3):
        nargs = rng.range(0, 3)
        kws = [k for k in ["a", "b", "w"] if rng.chance(60)]
        mode = rng.choice(["auto", "manual", "named", "mixed", "auto", "manual"])
        t = gen_template(rng, mode, kws or ["a"], nargs, maxdepth=3, lits=[l for l in LITS if "<" not in l]) \
            if not rng.chance(12) else gen_adversarial(rng)
        t = markup_free_for_model(t.replace("!a", "!s"))     # '<' only inside fields / format specs
        if not ascii_only_digits(t):
            continue
        args = [Sym("@%d" % j) for j in range(nargs)]
        kwargs = {k: Sym(k) for k in kws}
        kwtok = ",".join(enc(k) for k in kws) if kws else "-"
        py = res_of(lambda: t.format(*args, **kwargs))
        ctx.case(("sym", t, nargs, tuple(kws)), nontrivial=nontrivial(t))
        ctx.stat("sym:python:" + (py[0] if py[0] == "ok" else py[1]))
        lines.append("sfmt %d %s %s" % (nargs, kwtok, enc(t)))
        expect.append(("Py.Fmt.strFormat", (t, nargs, kws), show_res(py)))
        col = impl.prepare_message(t, args, kwargs)
        lines.append("cfmt %d %s %s" % (nargs, kwtok, enc(t)))
        expect.append(("Format.coloredFormat", (t, nargs, kws), show_res(col)))
        if col != py:
            alt = formatter_vformat(t, args, kwargs)
            key = F21_KEY if (col == alt and f21_shape(t)) else None
            ctx.stat("sym:colored_differs:" + str(key))
            ctx.violation("prepare_message(%r, %d args, kwargs %r).stripped: str.format gives %r, observed %r"
                          % (t, nargs, kws, py, col),
                          {"stream": "sym", "template": t, "nargs": nargs, "kws": kws, "expected": list(py), "observed": list(col)},
                          key=key)
        if i % 4 == 0:
            # without arguments the whole message is colour markup: only '<'-free ones belong to this area
            colors = rng.chance(50) and (bool(args or kwargs) or "<" not in t)
            got = impl.message(t, args, dict(kwargs), colors=colors)
            lines.append("msg %d %d %s %s" % (1 if colors else 0, nargs, kwtok, enc(t)))
            expect.append(("Format.logMessage", (t, nargs, kws, colors), show_res(got)))
            exp = py if (args or kwargs) else ("ok", t)
            if got != exp and not (colors and col == got and col != py):
                ctx.violation("logger.opt(colors=%r).info(%r, ...): expected %r observed %r" % (colors, t, exp, got),
                              {"stream": "symmsg", "template": t, "nargs": nargs, "kws": kws, "colors": colors,
                               "expected": list(exp), "observed": list(got)})
        if i < 2:
            ctx.sample({"stream": "symbolic", "template": t, "nargs": nargs, "kwargs": kws, "python": list(py), "loguru_colored": list(col)})

    # ---- stream 3b (round 5): whole logging calls with opt(lazy/capture/record/colors) combinations, a caller's
    #      `record` keyword, failing lazy arguments, str-subclass messages: record["message"], the keys `capture`
    #      adds to extra and the order of the lazy calls vs Format.logCall, and vs Python itself (direct oracle)
    for i in range(ctx.n(1500, 40000) * boost):
        state = rng.s
        t, nargs, kws, opts, fail, sub = gen_logcall(rng)
        if not ascii_only_digits(t):
            continue
        has_any = bool(nargs or kws or opts["record"])
        if opts["colors"] and not has_any and "<" in t:
            continue            # without arguments the whole message is colour markup (area Markup)
        got, trace, msg = run_logcall(impl, t, nargs, kws, opts, fail, sub)
        oname = "".join("1" if opts[k] else "0" for k in ("lazy", "capture", "record", "colors"))
        ctx.case(("logcall", t, nargs, tuple(kws), oname, fail, sub), nontrivial=nontrivial(t) or opts["lazy"] or opts["record"])
        ctx.stat("logcall:opts:" + oname)
        if got[0] == "ok":
            rec = got[1]
            extra_new = [k for k in rec["extra"] if k != "q"]
            shown = "ok %s %s %s" % (enc(rec["message"]), ",".join(["="] + [enc(k) for k in extra_new]),
                                     ",".join(["="] + [enc(x) for x in trace]))
            rec2 = dict(rec)
            res = ("ok", rec["message"])
        else:
            shown, rec2, res, extra_new = "err " + got[1], {"extra": {"q": Sym("record[extra][q]")}}, got, None
        ctx.stat("logcall:" + (got[0] if got[0] == "ok" else got[1]))
        lines.append("call %s %d %s %s %s %s" % (oname, nargs, ",".join(enc(k) for k in kws) if kws else "-",
                                                 enc(fail) if (fail and opts["lazy"]) else "-", enc(str(msg)), enc(t)))
        expect.append(("Format.logCall", (t, nargs, kws, oname, fail, sub), shown))
        py, forced = logcall_python(t, nargs, kws, opts, fail, msg, rec2)
        bad = None
        if res != py and not (opts["colors"] and has_any and res == formatter_vformat(
                t, [Sym("@%d" % j) for j in range(nargs)],
                dict({k: Sym(k) for k in kws}, **({"record": rec2} if opts["record"] else {}))) and f21_shape(t)):
            bad = "record['message'] expected %r, observed %r" % (py, res)
        elif got[0] == "ok" and trace != forced:
            bad = "lazy arguments were called in the order %r, expected %r (each once, positional first)" % (trace, forced)
        elif got[0] == "ok" and extra_new != ([k for k in kws] if (opts["capture"] and kws) else []):
            bad = "extra received the keys %r (capture=%r, keywords %r)" % (extra_new, opts["capture"], kws)
        elif got[0] == "ok" and opts["capture"] and any(getattr(rec["extra"][k], "_p", None) != k for k in kws):
            bad = "extra does not hold the evaluated keyword arguments"
        if bad:
            ctx.violation("logger.opt(%s).info(%s%r, %d positional, keywords %r%s): %s"
                          % (", ".join("%s=%r" % kv for kv in sorted(opts.items())), "StrSub " if sub else "", t, nargs, kws,
                             ", lazy argument %s raises KeyError" % fail if fail else "", bad),
                          {"stream": "logcall", "rng_state": state, "template": t, "expected": list(py), "observed": list(res)})
        if i < 2:
            ctx.sample({"stream": "logcall", "template": t, "opts": opts, "nargs": nargs, "kws": kws, "result": shown[:120]})

    # ---- stream 4: direct oracle with real values (no model): plain and coloured messages
    n4 = ctx.n(2500, 80000) * boost
    for i in range(n4):
        state = rng.s
        t, args, kwargs = gen_real_case(rng)
        colors = rng.chance(50) and literals_lt_free(t) and (bool(args or kwargs) or "<" not in t)
        ctx.case(("real", t, repr(args), repr(sorted(kwargs)), colors), nontrivial=nontrivial(t))
        ctx.stat("real:colors" if colors else "real:plain")
        lazy4, sub4 = rng.chance(20), rng.chance(12)
        msg4 = StrSub(t) if sub4 else t
        exp = res_of(lambda: str.format(msg4, *args, **kwargs)) if (args or kwargs) else ("ok", str(msg4))
        ctx.stat("real:python:" + (exp[0] if exp[0] == "ok" else exp[1]))
        if lazy4:
            ctx.stat("real:lazy")
        if sub4:
            ctx.stat("real:str-subclass-message")
        got = impl.message(msg4, args, dict(kwargs), colors=colors, lazy=lazy4)
        if got != exp:
            key = None
            if colors and (args or kwargs):
                alt = formatter_vformat(t, args, kwargs)
                key = F21_KEY if (got == alt and f21_shape(t)) else None
            ctx.violation("logger%s.info(%r, *%r, **%r): record['message'] expected %r, observed %r"
                          % (".opt(colors=True)" if colors else "", t, args, kwargs, exp, got),
                          {"stream": "real", "rng_state": state, "template": t, "colors": colors, "lazy": lazy4, "strsub": sub4,
                           "expected": list(exp), "observed": list(got)}, key=key)
        if i < 2:
            ctx.sample({"stream": "real", "template": t, "args": repr(args), "kwargs": repr(kwargs), "message": list(got)})
        if i % 16 == 0:   # opt(record=True): `record` is one more keyword; no-argument messages are still formatted
            t2 = t + rng.choice(["{record[level].name}", "{record[level].name:>{record[level].no}}", ""])
            got = impl.message(t2, args, dict(kwargs), record=True)
            ok = got[0] == "err" or True
            if got[0] == "ok":
                fake = {"level": types.SimpleNamespace(name="INFO", no=20), "extra": {}}
                exp2 = res_of(lambda: t2.format(*args, record=fake, **kwargs))
                if exp2 != got:
                    ctx.violation("opt(record=True).info(%r): expected %r observed %r" % (t2, exp2, got),
                                  {"stream": "record", "rng_state": state, "template": t2, "expected": list(exp2), "observed": list(got)})
            ctx.stat("real:record=True")

    # ---- stream 4b: coloured messages with markup in the literal text AND markup-looking format specs:
    #      "equals message.format(...) once markup is removed" – only literal text is markup
    for i in range(ctx.n(1500, 40000) * boost):
        state = rng.s
        tm, plain, args = gen_markup_message(rng)
        ctx.case(("markupmsg", tm, repr(args)), nontrivial=True)
        ctx.stat("real:markup+spec")
        exp = res_of(lambda: plain.format(*args)) if args else ("ok", plain)
        if not args and "{" in plain or "}" in plain and not args:
            continue        # no argument: the text is not a format template
        got = impl.message(tm, args, {}, colors=True)
        ctx.stat("markupmsg:python:" + (exp[0] if exp[0] == "ok" else exp[1]))
        if got != exp:
            key = None
            if args:
                alt = formatter_vformat(plain, args, {})
                key = F21_KEY if (got == alt and f21_shape(plain)) else None
            ctx.violation("logger.opt(colors=True).info(%r, *%r): record['message'] expected %r (= %r.format(...), markup removed), "
                          "observed %r" % (tm, args, exp, plain, got),
                          {"stream": "markupmsg", "rng_state": state, "template": tm, "plain": plain, "args": [repr(a) for a in args],
                           "expected": list(exp), "observed": list(got)}, key=key)
        if i < 2:
            ctx.sample({"stream": "markupmsg", "template": tm, "plain": plain, "args": repr(args), "message": list(got)})

    # ---- stream 5: handler formats over the record: the four formatting branches and raw
    n5 = ctx.n(1200, 25000) * boost
    extra = {"k": "v1", "n": 42, "o": Pt(), "w": 9}
    for i in range(n5):
        t = gen_record_format(rng)
        dynamic, colorize = rng.chance(40), rng.chance(40)
        if colorize and not literals_lt_free(t):
            colorize = False
        raw = rng.chance(12)
        msg = rng.choice(["hello", "a{b}", "é {} {{", "", "x<y"])
        margs = ()
        if rng.chance(20):
            msg, margs = "v={}", (rng.below(100),)
        cmsg = None
        if margs and rng.chance(50) and not any(nm.split(".")[0].split("[")[0] == "message" and (lvl >= 1 or sp) for lvl, nm, sp in fields_at(t)) \
                and not any(nm == "message" and cv for _l, nm, _s, cv in parse_lenient(t) if nm is not None):
            # the same call with colour markup in the message (a spec / conversion on a coloured {message} is F10, area Markup)
            cmsg = rng.choice(["<red>v</red>={}", "v=<b>{}</b>", "<level>v={}</level>", "v\\<b>={}"])
            msg = cmsg.replace("<red>", "").replace("</red>", "").replace("<b>", "").replace("</b>", "").replace("<level>", "") \
                .replace("</level>", "").replace("\\<", "<") if "\\<" not in cmsg else "v<b>={}"
            ctx.stat("emit:coloured-message")
        ctx.case(("emit", t, dynamic, colorize, raw, msg, cmsg), nontrivial=nontrivial(t))
        ctx.stat("emit:%s%s%s" % ("dynamic" if dynamic else "static", "+colorize" if colorize else "", "+raw" if raw else ""))
        got = check_emit(ctx, impl, extra, t, dynamic, colorize, raw, msg, margs, cmsg=cmsg)
        if i < 2:
            ctx.sample({"stream": "emit", "format": t, "dynamic": dynamic, "colorize": colorize, "emitted": str(got[1])[:120]})

    # exception suffix: the text ends with the formatted exception, after the terminator
    for t in ("{message}", "[{level}] {message} {{x}}", ""):
        try:
            1 / 0
        except ZeroDivisionError as e:
            exc = e
        got, rec = impl.emit(t, False, False, "boom", exception=exc)
        got0, _ = impl.emit("", False, False, "boom", exception=exc)
        ctx.case(("emit-exc", t), nontrivial=True)
        if got[0] == "ok" and got0[0] == "ok" and rec is not None:
            rec2 = dict(rec)
            rec2["exception"] = got0[1][1:]          # "" + "\n" + exception
            py = res_of(lambda: (t + "\n{exception}").format_map(rec2))
            if py != got or "ZeroDivisionError" not in got[1]:
                ctx.violation("handler format %r with an exception: emitted %r, expected %r" % (t, got, py),
                              {"stream": "emit-exc", "format": t, "expected": list(py), "observed": list(got)})
        else:
            ctx.violation("handler format %r with an exception failed: %r" % (t, got),
                          {"stream": "emit-exc", "format": t, "expected": "ok", "observed": list(got)})

    # ---- stream 5b: markup removed / escaped markup un-escaped / doubled braces preserved (Python oracle only)
    log = impl.logger.bind(**extra)
    for i in range(ctx.n(300, 8000)):
        tm, plain = gen_markup_format(rng)
        dynamic = rng.chance(40)
        saved, impl.logger = impl.logger, log
        try:
            got, rec = impl.emit(tm, dynamic, False, "m<b>", raw=False)
        finally:
            impl.logger = saved
        ctx.case(("markup", tm, dynamic), nontrivial=True)
        ctx.stat("emit:markup")
        if rec is None:
            ctx.violation("format %r with well-formed markup failed: %r" % (tm, got),
                          {"stream": "markup", "format": tm, "plain": plain, "dynamic": dynamic, "expected": "ok", "observed": list(got)})
            continue
        rec2 = dict(rec)
        rec2["exception"] = ""
        py = res_of(lambda: (plain if dynamic else plain + "\n{exception}").format_map(rec2))
        if py != got:
            ctx.violation("format %r: emitted %r, markup-free equivalent %r gives %r" % (tm, got, plain, py),
                          {"stream": "markup", "format": tm, "plain": plain, "dynamic": dynamic, "expected": list(py), "observed": list(got)})

    # ---- stream 6: end-to-end emit against the model on a symbolic record (patched record entries)
    n6 = ctx.n(1000, 20000) * boost
    symkeys = ["name", "function", "module", "file", "line", "process", "thread", "time", "elapsed", "extra"]

    def patch(r):
        for k in symkeys:
            r[k] = Sym(k)

    for i in range(n6):
        t = gen_template(rng, "named" if not rng.chance(10) else "mixed", symkeys, 0, maxdepth=3,
                         lits=[l for l in LITS if "<" not in l]).replace("!a", "!r")
        t = markup_free_for_model(t)
        if not ascii_only_digits(t) or any(n.split(".")[0].split("[")[0] in ("message", "level", "exception")
                                           for _l, n, _s in fields_at(t)):
            continue
        dynamic, colorize, raw = rng.chance(40), rng.chance(40), rng.chance(10)
        got, rec = impl.emit(t, dynamic, colorize, "msg", raw=raw, patch=patch)
        ctx.case(("emitsym", t, dynamic, colorize, raw), nontrivial=nontrivial(t))
        ctx.stat("emitsym")
        kw = symkeys + ["exception"]
        lines.append("emit %d %d %d %s %s %s" % (raw, dynamic, colorize, ",".join(enc(k) for k in kw), enc(t), enc("msg")))
        if got[0] == "adderr":
            expect.append(("Format.emitText", (t, dynamic, colorize, raw), "adderr " + got[1]))
        else:
            expect.append(("Format.emitText", (t, dynamic, colorize, raw), show_res(got)))
        # direct oracle on the same symbolic record
        if got[0] != "adderr" and not raw:
            env = {k: Sym(k) for k in symkeys}
            env["exception"] = ExcSym("exception")
            env["message"], env["level"] = "msg", "L"
            py = res_of(lambda: (t if dynamic else t + "\n{exception}").format_map(env))
            if not same_failure(got, py, t):
                ctx.violation("handler format %r on a symbolic record: emitted %r, format_map gives %r" % (t, got, py),
                              {"stream": "emitsym", "format": t, "dynamic": dynamic, "colorize": colorize, "raw": raw,
                               "expected": list(py), "observed": list(got)})

    # ---- stream 7 (round 5): HISTORIES through one dynamic-format handler: the template changes from record to
    #      record, comes back, and more than lru_cache's 64 distinct templates pass; every record must be rendered
    #      by Python's format_map of ITS OWN template (direct oracle) and as Format.dynRun says (model)
    for i in range(ctx.n(40, 1000) * boost):
        pool = []
        npool = rng.choice([2, 3, 5, 70, 80]) if not rng.chance(50) else rng.range(1, 6)
        while len(pool) < npool:
            t = gen_template(rng, "named", SYMKEYS, 0, maxdepth=2, lits=[l for l in LITS if "<" not in l]).replace("!a", "!r")
            t = markup_free_for_model(t) + ("#%d" % len(pool) if npool > 6 else "")
            if not ascii_only_digits(t) or any(n.split(".")[0].split("[")[0] in ("message", "level", "exception")
                                               for _l, n, _s in fields_at(t)):
                continue
            pool.append(t)
        n = rng.range(2, 12) if npool <= 6 else rng.range(npool, npool + 30)
        seq = [pool[j] if (npool > 6 and j < npool) else rng.choice(pool) for j in range(n)]
        got7 = run_dynseq(impl, seq)
        ctx.case(("dynseq", tuple(seq)), nontrivial=True)
        ctx.stat("dynseq:histories")
        ctx.stat("dynseq:records", n)
        if npool > 64:
            ctx.stat("dynseq:beyond_lru_maxsize")
        bad7 = judge_dynseq(seq, got7)
        if bad7 is not None:
            j, py = bad7
            ctx.violation("dynamic format, record %d of a history of %d through one handler (templates so far: %d distinct): "
                          "template %r emitted %r, Python's format_map gives %r"
                          % (j + 1, n, len(set(seq[:j + 1])), seq[j], got7[j], py),
                          {"stream": "dynseq", "sequence": seq, "index": j, "expected": list(py), "observed": list(got7[j])})
        kw = SYMKEYS + ["exception"]
        lines.append("dyn %s %s" % (",".join(enc(k) for k in kw), " ".join(enc(t) for t in seq)))
        expect.append(("Format.dynRun", (seq,), "dyn " + " ".join(("ok:" + enc(g[1])) if g[0] == "ok" else ("err:" + g[1]) for g in got7)))

    # ---- stream 8 (round 5): which text emit() hands over – raw / static / dynamic x colorize x coloured call x a
    #      patcher replacing record["message"] x levels (default, created after the handler, numeric):
    #      "opt(raw=True) emits the message", a replaced message is never emitted with the stale colours
    for i in range(ctx.n(300, 4000) * boost):
        c8 = gen_emitfull(rng)
        got8, exp8, recmsg, bad8 = run_emitfull(impl, c8)
        ctx.case(("emitfull",) + tuple(str(c8[k]) for k in sorted(c8)), nontrivial=True)
        ctx.stat("emitfull:%s%s%s%s:%s" % ("raw" if c8["raw"] else "fmt", "+dyn" if c8["dynamic"] else "",
                                          "+colorize" if c8["colorize"] else "", "+colors" if c8["colors"] else "", c8["patch"]))
        if bad8:
            ctx.violation(bad8, dict(c8, stream="emitfull", expected=["ok", exp8], observed=list(got8)))
        elif c8["raw"] and c8["colors"] and "<" not in c8["body"]:
            pass        # a coloured message without any tag: its coloured rendering IS the plain text
        else:
            which = ("M" if got8[1] == recmsg else "C") if c8["raw"] else "F"
            lines.append("efull %d %d %d %d %d" % (c8["raw"], c8["dynamic"], c8["colorize"], c8["colors"], c8["patch"] in ("other", "samelen")))
            expect.append(("Format.emitFull", (c8["raw"], c8["dynamic"], c8["colorize"], c8["colors"], c8["patch"]), which))

    # ---- run the model
    out = drv.run(lines)
    bad = {}
    for (what, payload, py), o in zip(expect, out):
        ctx.traces_validated += 1
        if py == o:
            continue
        bad[what] = bad.get(what, 0) + 1
        ctx.stat("disagreements:" + what)
        if bad[what] > 3:
            continue
        ctx.broke("correspondence " + what, "input=%r python/impl=%r model=%r" % (payload, py, o))
        if what in ("Format.prepareFormat", "Format.coloredFormat", "Format.logMessage", "Format.emitText", "Format.logCall", "Format.dynRun", "Format.emitFull"):
            # the implementation left the model the theorems of Props/C05 speak about
            ctx.violation("implementation and model disagree on %s%r: implementation %r, model %r" % (what, payload, py, o),
                          {"stream": "model", "what": what, "input": _jsonable(payload), "expected": o, "observed": py},
                          kind="correspondence")
    seen, uniq = set(), []
    for b in ctx.broken:
        if b["name"] not in seen:
            seen.add(b["name"])
            uniq.append(b)
    ctx.broken[:] = uniq


def _jsonable(p):
    if isinstance(p, tuple):
        return [_jsonable(x) for x in p]
    return p


def _probe_record(impl, extra, msg, margs):
    """the record an equivalent logging call would carry: taken from a harmless call through the
    '{message}' handler, with the message Python itself computes"""
    impl.got.clear()
    impl.logger.bind(**extra).info("probe")
    rec = dict(impl.got[0].record)
    rec["exception"] = ""
    rec["message"] = msg.format(*margs) if margs else msg
    return rec


# ----------------------------------------------------------------------------- replay
def replay(ctx, rep):
    r = rep["replay"]
    impl = Impl()
    try:
        return _replay(ctx, r, impl)
    finally:
        impl.close()


def _replay(ctx, r, impl):
    st = r.get("stream")
    exp = r.get("expected")
    print("stream:", st)
    if st in ("witness", "corpus", "real", "record"):
        if "rng_state" in r:
            t0, args, kwargs = real_case_from_replay(r)
        else:
            t0, args, kwargs = r["template"], [eval(a, {"datetime": pydt, "Pt": Pt}) for a in r["args"]], \
                {k: eval(v, {"datetime": pydt, "Pt": Pt}) for k, v in r["kwargs"].items()}
        t = r["template"]
        if st == "record":
            got = impl.message(t, args, dict(kwargs), record=True)
        else:
            m0 = StrSub(t) if r.get("strsub") else t
            got = impl.message(m0, args, dict(kwargs), colors=r.get("colors", False), lazy=bool(r.get("lazy")))
            exp = list(res_of(lambda: str.format(m0, *args, **kwargs))) if (args or kwargs) else ["ok", str(m0)]
        print("template=%r args=%r kwargs=%r colors=%r" % (t, args, kwargs, r.get("colors")))
    elif st == "markupmsg":
        rng = core.Rng(0)
        rng.s = r["rng_state"]
        t, plain, args = gen_markup_message(rng)
        got = impl.message(t, args, {}, colors=True)
        exp = list(res_of(lambda: plain.format(*args))) if args else ["ok", plain]
        print("template=%r markup-free=%r args=%r" % (t, plain, args))
    elif st in ("sym", "symmsg"):
        t, nargs, kws = r["template"], r["nargs"], r["kws"]
        args = [Sym("@%d" % j) for j in range(nargs)]
        kwargs = {k: Sym(k) for k in kws}
        if st == "sym":
            got = impl.prepare_message(t, args, kwargs)
        else:
            got = impl.message(t, args, dict(kwargs), colors=r["colors"])
        exp = list(res_of(lambda: t.format(*args, **kwargs))) if (args or kwargs) else ["ok", t]
        print("template=%r symbolic args=%d kwargs=%r" % (t, nargs, kws))
    elif st == "prep":
        t = r["template"]
        g = impl.prepare_format(t)
        print("template=%r prepare_format(...).strip()=%r" % (t, g))
        if g[0] == "ok":
            got, exp = py_parse(g[1]), py_parse(t)
        else:
            env = {nm: Sym(nm) for nm in ["message", "level", "extra"] + IDENTS}
            got, exp = list(g), list(res_of(lambda: t.format_map(env)))
            if exp[0] == "err":
                exp = got
    elif st == "emit":
        class Collect:
            def __init__(self):
                self.v = []
            def violation(self, what, rep, key=None, kind="oracle"):
                self.v.append(what)
            def stat(self, *a, **k):
                pass
            def case(self, *a, **k):
                pass
        col = Collect()
        extra = {"k": "v1", "n": 42, "o": Pt(), "w": 9}
        g = check_emit(col, impl, extra, r["format"], r.get("dynamic", False), r.get("colorize", False), r.get("raw", False),
                       r.get("message", "hello"), tuple(r.get("margs", ())), cmsg=r.get("cmsg"))
        print("format=%r dynamic=%r colorize=%r raw=%r message=%r" % (r["format"], r.get("dynamic"), r.get("colorize"),
                                                                      r.get("raw"), r.get("message")))
        print("implementation:", g)
        for w in col.v:
            print("oracle:", w)
        print("REPRODUCED" if col.v else "not reproduced")
        return 1 if col.v else 0
    elif st in ("markup", "emit-exc", "emitsym"):
        extra = {"k": "v1", "n": 42, "o": Pt(), "w": 9}
        saved = impl.logger
        impl.logger = saved.bind(**extra)
        symkeys = ["name", "function", "module", "file", "line", "process", "thread", "time", "elapsed", "extra"]

        def patch(rr):
            for k in symkeys:
                rr[k] = Sym(k)
        try:
            g, rec = impl.emit(r["format"], r.get("dynamic", False), r.get("colorize", False), r.get("message", "m<b>" if st == "markup" else "msg"),
                               args=tuple(r.get("margs", ())), raw=r.get("raw", False), patch=patch if st == "emitsym" else None)
        finally:
            impl.logger = saved
        got = list(g)
        print("format=%r dynamic=%r colorize=%r raw=%r" % (r["format"], r.get("dynamic"), r.get("colorize"), r.get("raw")))
    elif st == "logcall":
        rng = core.Rng(0)
        rng.s = r["rng_state"]
        t, nargs, kws, opts, fail, sub = gen_logcall(rng)
        g, trace, msg = run_logcall(impl, t, nargs, kws, opts, fail, sub)
        rec2 = dict(g[1]) if g[0] == "ok" else {"extra": {"q": Sym("record[extra][q]")}}
        py, forced = logcall_python(t, nargs, kws, opts, fail, msg, rec2)
        print("logger.opt(%r).info(%s%r, %d positional, keywords %r), failing lazy argument: %r" % (opts, "StrSub " if sub else "", t, nargs, kws, fail))
        if g[0] == "ok":
            captured = [k for k in g[1]["extra"] if k != "q"]
            got = ["ok", g[1]["message"], trace, captured,
                   "extra holds the evaluated arguments: %r" % all(getattr(g[1]["extra"][k], "_p", None) == k for k in captured)]
            exp = list(py) + [forced, list(kws) if (opts["capture"] and kws) else [], "extra holds the evaluated arguments: True"]
        else:
            got, exp = list(g), list(py)
    elif st == "dynseq":
        seq = r["sequence"]
        g = run_dynseq(impl, seq)
        j = judge_dynseq(seq, g)
        print("history of %d templates through one dynamic-format handler" % len(seq))
        if j is None:
            print("not reproduced")
            return 0
        print("record %d, template %r: implementation %r, Python's format_map %r" % (j[0] + 1, seq[j[0]], g[j[0]], j[1]))
        print("REPRODUCED")
        return 1
    elif st == "emitfull":
        g, e, _m, bad = run_emitfull(impl, r)
        print(bad or "visible text as expected: %r" % (e,))
        print("REPRODUCED" if bad else "not reproduced")
        return 1 if bad else 0
    elif st == "model":
        line = None
        what, inp = r["what"], r["input"]
        if what == "Format.prepareFormat":
            line, got = "prep " + enc(inp), show_res(impl.prepare_format(inp))
        elif what in ("Format.coloredFormat", "Format.logMessage"):
            t, nargs, kws = inp[0], inp[1], inp[2]
            args = [Sym("@%d" % j) for j in range(nargs)]
            kwargs = {k: Sym(k) for k in kws}
            kwtok = ",".join(enc(k) for k in kws) if kws else "-"
            if what == "Format.coloredFormat":
                line, got = "cfmt %d %s %s" % (nargs, kwtok, enc(t)), show_res(impl.prepare_message(t, args, kwargs))
            else:
                line = "msg %d %d %s %s" % (1 if inp[3] else 0, nargs, kwtok, enc(t))
                got = show_res(impl.message(t, args, dict(kwargs), colors=inp[3]))
        else:
            print("replay of %s: re-run the check with the same seed" % what)
            got = r["observed"]
        if line is not None:
            exp = core.Driver(DRIVER).run([line])[0]
        print("input=%r" % (inp,))
    else:
        print("unknown stream")
        return 2
    print("implementation:", got)
    print("expected:      ", exp)
    bad = list(got) != list(exp) if not isinstance(got, str) else got != exp
    print("REPRODUCED" if bad else "not reproduced")
    return 1 if bad else 0
