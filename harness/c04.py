"""C04 – a failing handler never breaks the caller, the other handlers, or itself (DESIGN §4 C04).

A *scenario* = up to three handlers (sink kind, catch, enqueue, filter / dynamic format / serialize),
a fault table (message, handler, stage) -> error kind, and a history of operations (log / complete /
remove).  It is executed three times:

  implementation   real loguru objects; faults injected with genuinely raising user objects; sys.stderr
                   replaced by a recorder; every scenario under a watchdog (a hang is a violation)
  executable spec  `spec_run` below: the property's own words, stage by stage, in Python – the DIRECT
                   ORACLE, independent of the Lean model
  Lean model       `lean/drivers/C04.lean` (Emit/Model.lean) – the correspondence stream

Observables (API level only): exception kind at the call site of every operation, the stderr reports
(handler id, message, error kind, placeholder, reporting thread), exceptions handed to the event
loop by coroutine sinks, contents of every sink after each group of operations, the registry as
printed by `repr(logger)`, the minimum level.
"""
import asyncio
import gc
import json
import logging
import os
import re
import shutil
import sys
import tempfile
import threading
import time
import warnings

from harness import core

# the proof obligations of this check depend on Generated/EmitShape.lean only: do not let another area's extractor
# (failing closed on a tree it does not understand) show up as a broken tie of C04
os.environ.setdefault("VERIF_EXTRACT_ONLY", "emit_shape")


def _memoise_sysconfig():
    """`logger.add()` builds an ExceptionFormatter whose constructor calls `sysconfig.get_paths()` (16 ms of pure,
    argument-determined work in the standard library) – two thirds of the cost of a scenario.  Memoise it for this
    process; nothing of loguru is touched."""
    import functools
    import sysconfig
    if getattr(sysconfig.get_paths, "c04_memo", False):
        return
    orig = sysconfig.get_paths

    @functools.lru_cache(maxsize=None)
    def cached(scheme, expand):
        return orig(scheme, None, expand)

    def get_paths(scheme=None, vars=None, expand=True):
        if vars is not None:
            return orig(scheme if scheme is not None else sysconfig.get_default_scheme(), vars, expand)
        return dict(cached(scheme if scheme is not None else sysconfig.get_default_scheme(), expand))
    get_paths.c04_memo = True
    sysconfig.get_paths = get_paths


_memoise_sysconfig()

PROP = "C04"
LEAN_TARGETS = ["LoguruModel.Props.C04"]
AUDIT_FILE = "LoguruModel/Audit/C04.lean"
DRIVER = "C04"
RULE = ("scenarios = handlers x fault table x history; the structured product enumerates failing stage x position "
        "of the failing handler (0..2 of 3) x catch x enqueue x sink kind x ok/fail words of length <= 3 "
        "(exhaustive in thorough, sampled in quick); the random stream adds multi-fault tables, filters, levels, "
        "re-entrant sinks, removals (single, all, with messages pending), stderr modes (incl. breaking at one chunk of a "
        "report) and stderr flavours (write() only / file-like / one member other than write() failing), raw and coloured "
        "messages; every real ErrorInterceptor.print call of the call-by-call stream (stderr condition x chunk x error "
        "kind x record shape x flavour, exhaustive) counts as one case; non-trivial = at least one stage / write / member "
        "fails; distinct by scenario")
TRUSTED = [
    "Emit/Model.lean is a sequential model: the enqueue worker runs when the logging thread waits for it "
    "(complete/remove); interleavings are C02/C03's subject",
    "sink contents are message indices; partial writes of a failing stream/file are outside",
    "tools/extractors/emit_shape.py reads the except/finally/continue shape from the AST (fails closed)",
]
ASSUMPTIONS = [
    "sys.stderr, when it fails, fails with OSError (a stderr failing otherwise reaches the caller: modelled, "
    "compared with the model only)",
    "BaseException (KeyboardInterrupt, GeneratorExit) is deliberately not caught by the code",
    "enqueue=True with a coroutine sink: the worker's loop.create_task runs while the loop thread waits in "
    "complete_queue() (the harness awaits complete() after every message), so no cross-thread race is exercised",
]

STAGES = ["filter", "dynFormat", "excFormat", "formatMap", "serialize", "put", "write", "flush", "stop",
          "coroBody", "get"]
KINDS = ["callable", "stream", "streamFlush", "file", "coroutine", "standard"]
ERR_NAMES = ["ValueError", "TypeError", "KeyError", "IndexError", "AttributeError", "RuntimeError", "OSError",
             "Other"]
LEVEL_NAMES = {10: "DEBUG", 20: "INFO", 30: "WARNING"}
WATCHDOG_S = 12.0


class Boom(Exception):
    pass


ERR_CLS = {"ValueError": ValueError, "TypeError": TypeError, "KeyError": KeyError, "IndexError": IndexError,
           "AttributeError": AttributeError, "RuntimeError": RuntimeError, "OSError": OSError, "Other": Boom}


# what a broken sys.stderr may raise: the error kinds of the fault tables plus a SUBCLASS of OSError (a broken pipe is
# what a real stderr raises); the model and the property know it as OSError
STDERR_ERR = dict(ERR_CLS, BrokenPipeError=BrokenPipeError)


def model_mode(mode):
    return mode.replace("BrokenPipeError", "OSError")


def mk_exc(kind, h, i, stage):
    e = ERR_CLS[kind]("injected %s h=%s i=%s" % (stage, h, i))
    e.tag = (h, i)
    return e


def kind_of_name(name):
    name = name.split(".")[-1]
    return name if name in ERR_CLS and name != "Other" else "Other"


def kind_of(e):
    return kind_of_name(type(e).__name__)


# ----------------------------------------------------------------------------- raising user objects
class Raiser:
    """value whose use in a format field raises"""

    def __init__(self, kind):
        self.kind = kind

    def __format__(self, spec):
        raise ERR_CLS[self.kind]("injected formatMap")

    def __str__(self):
        return ""


class BadStr:
    """object that breaks json.dumps(default=str)"""

    def __init__(self, kind):
        self.kind = kind

    def __str__(self):
        raise ERR_CLS[self.kind]("injected serialize")

    def __repr__(self):
        return "<BadStr>"


class BadRepr:
    """object that breaks str(record)"""

    def __str__(self):
        return "badrepr"

    def __repr__(self):
        raise ValueError("injected repr")


class Unpicklable:
    def __init__(self, kind):
        self.kind = kind

    def __reduce__(self):
        raise ERR_CLS[self.kind]("injected put")


def _raise_on_load(kind):
    raise ERR_CLS[kind]("injected get")


class BadUnpickle:
    def __init__(self, kind):
        self.kind = kind

    def __reduce__(self):
        return (_raise_on_load, (self.kind,))


# ----------------------------------------------------------------------------- scenario helpers
def S(scn):
    """scenario (JSON-able dict) -> lookup tables"""
    t = {}
    t["faults"] = {(f[0], f[1], f[2]): f[3] for f in scn["faults"]}
    t["rejects"] = {(a[0], a[1]) for a in scn["rejects"]}
    t["reenter"] = {}
    for r in scn["reenter"]:
        t["reenter"].setdefault((r[0], r[1]), []).append(r[2])     # int j: log m<j>; "r<k>": remove(own id); "c": complete()
    t["exc"] = set(scn["exc"])
    t["strfails"] = set(scn["strfails"])
    t["levels"] = {int(k): v for k, v in scn["levels"].items()}
    t["handlers"] = {h["id"]: h for h in scn["handlers"]}
    t["raw"] = set(scn.get("raw", []))          # messages logged with opt(raw=True)
    t["colors"] = set(scn.get("colors", []))    # messages logged with opt(colors=True) and markup in the text
    return t


def level_of(t, i):
    return t["levels"].get(i, 20)


def all_msgs(scn):
    out = []
    for g in scn["groups"]:
        for op in g:
            if op[0] == "l":
                out.append(op[1])
    out += [r[2] for r in scn["reenter"] if isinstance(r[2], int)]
    return out


CHUNKS = "hrtf"      # header, record line, traceback, footer: the four pieces of one report


def is_tame(mode):
    """stderr works, is absent, or fails with OSError (as a whole, or from some chunk of a report on)"""
    return model_mode(mode) in ("ok", "absent", "OSError") or model_mode(mode).startswith("OSError@")


def group_modes(scn):
    """stderr mode of every group"""
    seq = scn.get("stderr_seq")
    if not seq:
        return [scn["stderr"]] * len(scn["groups"])
    return [e["mode"] for e in seq]


def inner_closure(scn, i):
    """message i and every message logged (transitively) from inside sinks while it is processed"""
    out, todo = [], [i]
    while todo:
        x = todo.pop()
        if x in out:
            continue
        out.append(x)
        todo += [r[2] for r in scn["reenter"] if r[0] == x and isinstance(r[2], int)]
    return out


def line_of(scn):
    def lst(items):
        return ";".join(items) if items else "-"
    H = lst(["%d,%d,%d,%d,%s,%d,%d,%d,%d" % (h["id"], h["level"], h["catch"], h["enqueue"], h["kind"], h["filter"],
                                            h["dynamic"], h["serialize"], h.get("stoppable", 1))
             for h in scn["handlers"]])
    F = lst(["%d,%d,%s,%s" % tuple(f) for f in scn["faults"]])
    A = lst(["%d,%d" % tuple(a) for a in scn["rejects"]])
    R = lst(["%d,%d,%s" % tuple(r) for r in scn["reenter"]])
    X = lst([str(i) for i in scn["exc"]])
    Sf = lst([str(i) for i in scn["strfails"]])
    N = lst([str(i) for i in all_msgs(scn)]) if scn["noloop"] else "-"
    L = lst(["%s,%d" % (k, v) for k, v in sorted(scn["levels"].items(), key=lambda kv: int(kv[0]))])
    O = lst(["+".join(("l%d" % op[1]) if op[0] == "l" else "c" if op[0] == "c" else ("R%d" % op[1]) if op[0] == "R"
                      else "r%d.%d" % (op[1], op[2]) for op in g) for g in scn["groups"]])
    E = model_mode(scn["stderr"])
    if scn.get("stderr_seq"):
        for g, m in zip(scn["groups"], [model_mode(x) for x in group_modes(scn)]):
            for op in g:
                if op[0] == "l":
                    E += "".join("/%d:%s" % (x, m) for x in inner_closure(scn, op[1]))
                elif op[0] == "r":
                    E += "/%d:%s" % (op[2], m)
                elif op[0] == "R":
                    E += "/%d:%s" % (op[1], m)
    W = lst([str(i) for i in scn.get("raw", [])])
    line = "run H=%s F=%s A=%s R=%s X=%s S=%s N=%s L=%s E=%s D=3 O=%s W=%s" % (H, F, A, R, X, Sf, N, L, E, O, W)
    pre = scn.get("pre")
    if pre and pre["stage"] == "filter":
        # the filter of handler pos logs message 100+i while it is asked about the outer message i (Emit/PreLock.lean)
        line += " Q=" + lst(["%d,%d,%d" % (op[1], pre["pos"], 100 + op[1]) for g in scn["groups"] for op in g
                             if op[0] == "l" and op[1] < 100])
    return line


def show_obs(results, events, reg, minlevel, sinks):
    return "%s:%s:reg=%s:min=%s:%s" % (
        "+".join(results), ",".join(sorted(events)), ".".join(str(x) for x in reg) if reg else "-", minlevel,
        ";".join("%d=%s" % (h, ".".join(str(x) for x in sinks[h])) for h in sorted(sinks)))


def ev_report(h, msg, kind, ph, src):
    m = "p" if ph else ("n" if msg is None else str(msg))
    return "R%d.%s.%s.%d.%s" % (h, m, kind, 1 if ph else 0, src)


def ev_partial(h, msg, ph, chunks, src):
    """a report stderr accepted only in part; the record is identifiable only if its line was written"""
    m = ("p" if ph else ("n" if msg is None else str(msg))) if "r" in chunks else "-"
    return "P%d.%s.%s.%s" % (h, m, chunks, src)


def stop_runs_user_code(c):
    """the sink's stop() runs user code: a stream object with a stop() method, a logging.Handler (close), a file sink
    (retention / compression callables) – a callable or coroutine sink has nothing to stop"""
    if c["kind"] in ("stream", "streamFlush"):
        return bool(c.get("stoppable", 1))
    return c["kind"] in ("standard", "file")


# ----------------------------------------------------------------------------- executable spec (direct oracle)
def spec_outcome(t, h, i, stopped):
    """the property's reading: first failing stage in the documented order"""
    c = t["handlers"][h]
    F = t["faults"]
    if c["level"] > level_of(t, i):
        return ("skipped",)
    if c["filter"]:
        if (i, h, "filter") in F:
            return ("failed", F[(i, h, "filter")])
        if (i, h) in t["rejects"]:
            return ("skipped",)
    if c["dynamic"] and (i, h, "dynFormat") in F:
        return ("failed", F[(i, h, "dynFormat")])
    if i in t["exc"] and (i, h, "excFormat") in F:
        return ("failed", F[(i, h, "excFormat")])
    if i not in t["raw"] and (i, h, "formatMap") in F:      # a raw message is emitted as it is: nothing to format
        return ("failed", F[(i, h, "formatMap")])
    if c["serialize"] and (i, h, "serialize") in F:
        return ("failed", F[(i, h, "serialize")])
    if stopped:
        return ("skipped",)
    return ("handoff",)


def spec_sink_write(t, scn, h, i, sinks, tasks):
    """sink.write proper: returns error kind or None"""
    c = t["handlers"][h]
    F = t["faults"]
    if (i, h, "write") in F:
        return F[(i, h, "write")]
    if c["kind"] == "coroutine":
        if not scn["noloop"]:
            tasks[h].append(i)
        return None
    sinks[h].append(i)
    if c["kind"] == "streamFlush" and (i, h, "flush") in F:
        return F[(i, h, "flush")]
    return None


def spec_run(scn):
    """the property evaluated on the scenario: list of observation strings (None when the scenario is
    outside the property's hypotheses)"""
    t = S(scn)
    modes = group_modes(scn)
    if any(not is_tame(m) for m in modes):
        return None
    state = {"mode": "ok"}
    reg = [h["id"] for h in scn["handlers"]]
    sinks = {h: [] for h in reg}
    pending = {h: [] for h in reg}
    tasks = {h: [] for h in reg}
    obs = []

    def report(events, h, msg, kind, src):
        # on the stderr of THIS moment; absent / OSError: silent, never propagated; a stderr that breaks in the middle
        # of the report keeps what it had accepted – and still nothing is propagated
        ph = msg is not None and msg in t["strfails"]
        mode = model_mode(state["mode"])
        if mode == "ok":
            events.append(ev_report(h, msg, kind, ph, src))
        elif "@" in mode:
            chunks = CHUNKS[:CHUNKS.index(mode.split("@")[1])]
            if chunks:
                events.append(ev_partial(h, msg, ph, chunks, src))

    def drain(events, h):
        c = t["handlers"][h]
        for i in pending[h]:
            if (i, h, "get") in t["faults"]:
                report(events, h, None, t["faults"][(i, h, "get")], "w")     # worker survives
                continue
            err = spec_sink_write(t, scn, h, i, sinks, tasks)
            if err is not None:
                report(events, h, i, err, "w")                                 # worker survives
        pending[h] = []

    def spec_log(events, i, busy):
        """one `_log` over the registered handlers; `busy` = handlers whose sink is running right now.
        Returns the error kind that reaches the caller of this logging call, or None."""
        if not reg or level_of(t, i) < min(t["handlers"][h]["level"] for h in reg):
            return None
        for h in list(reg):               # the registry as it is when the call starts
            c = t["handlers"][h]
            out = spec_outcome(t, h, i, False)
            err = None
            if out[0] == "failed":
                err = out[1]
            elif out[0] == "handoff":
                if h in busy:
                    err = "RuntimeError"      # the logger used from inside this handler's own sink: detected
                elif c["enqueue"]:
                    if (i, h, "put") in t["faults"]:
                        err = t["faults"][(i, h, "put")]
                    else:
                        pending[h].append(i)
                else:
                    busy.add(h)
                    for a in t["reenter"].get((i, h), []):
                        if isinstance(a, int):
                            err = spec_log(events, a, busy)    # the sink calls logger.info(...): a whole _log
                        elif a == "c":
                            err = "RuntimeError"               # logger.complete() from inside its own sink: detected
                        elif h not in reg:
                            err = "ValueError"                 # logger.remove(own id) twice
                        else:
                            reg.remove(h)                      # unpublished first, "removed nonetheless" …
                            err = "RuntimeError"               # … then stop() on a running sink: detected
                        if err is not None:
                            break                              # escapes from the sink
                    busy.discard(h)
                    if err is None:
                        err = spec_sink_write(t, scn, h, i, sinks, tasks)
            if err is not None:
                if c["catch"]:
                    report(events, h, i, err, "m")   # never propagated; the others still receive
                else:
                    return err                        # reaches the caller; earlier handlers are done
        return None

    for gi, g in enumerate(scn["groups"]):
        results, events = [], []
        state["mode"] = modes[gi]
        for op in g:
            if op[0] == "l":
                err = spec_log(events, op[1], set())
                results.append("ok" if err is None else err)
            elif op[0] == "c":
                for h in reg:
                    c = t["handlers"][h]
                    if c["enqueue"]:
                        drain(events, h)
                    for i in tasks[h]:
                        if (i, h, "coroBody") in t["faults"]:
                            k = t["faults"][(i, h, "coroBody")]
                            if c["catch"]:
                                report(events, h, i, k, "m")
                            else:
                                events.append("L%d.%d.%s" % (h, i, k))
                        else:
                            sinks[h].append(i)
                    tasks[h] = []
                results.append("ok")
            elif op[0] == "R":
                # remove() of every handler, in registration order: each one is removed nonetheless; the error of a
                # failing stop() reaches the caller there and then – the handlers not yet visited stay, usable
                k, res = op[1], "ok"
                for hid in list(reg):
                    reg.remove(hid)
                    c = t["handlers"][hid]
                    if c["enqueue"]:
                        drain(events, hid)
                    tasks[hid] = []
                    if stop_runs_user_code(c) and (k, hid, "stop") in t["faults"]:
                        res = t["faults"][(k, hid, "stop")]
                        break
                results.append(res)
            else:
                _, hid, k = op
                if hid not in reg:
                    results.append("ValueError")
                    continue
                reg.remove(hid)                               # removed nonetheless
                c = t["handlers"][hid]
                if c["enqueue"]:
                    drain(events, hid)
                tasks[hid] = []
                results.append(t["faults"].get((k, hid, "stop"), "ok") if stop_runs_user_code(c) else "ok")
        minl = min([t["handlers"][h]["level"] for h in reg]) if reg else "inf"
        obs.append(show_obs(results, events, reg, minl, sinks))
    return obs


# ----------------------------------------------------------------------------- implementation runner
def report_phase(text):
    """which of the four pieces of a report a write to stderr belongs to"""
    if text.startswith("--- Logging error in Loguru Handler #"):
        return "h"
    if text.startswith("Record was: "):
        return "r"
    if text.startswith("--- End of logging error ---"):
        return "f"
    return "t"


class Recorder:
    """stand-in for sys.stderr.  `sys.stderr` is only required to be an object with `write()`: the default flavour
    offers nothing else (no `flush`, no `closed`, no `isatty` …) and keeps its own book-keeping under private
    names, so that the code under test cannot lean on an attribute a real file happens to have.
    `c04_retired` = it is no longer sys.stderr (any write to it is a stale write), `c04_closed` = like a closed
    file: writing raises ValueError"""

    def __init__(self, mode):
        self.c04_mode = mode
        self.c04_chunks = []
        self.c04_retired = False
        self.c04_closed = False
        self.c04_stale = 0

    def write(self, text):
        if self.c04_retired:
            self.c04_stale += 1
        if self.c04_closed:
            raise ValueError("I/O operation on closed file.")
        mode = self.c04_mode
        if mode == "ok":
            self.c04_chunks.append((threading.current_thread().name, text))
            return len(text)
        if "@" in mode:
            # a stream that breaks in the middle of a report: it refuses the chunk named in the mode
            kind, at = mode.split("@")
            if report_phase(text) != at:
                self.c04_chunks.append((threading.current_thread().name, text))
                return len(text)
            raise STDERR_ERR[kind]("stderr broke at chunk %s" % at)
        raise STDERR_ERR[mode]("stderr is broken")

    def take(self):
        per = {}
        for name, text in self.c04_chunks:
            per.setdefault(name, []).append(text)
        self.c04_chunks = []
        return {k: "".join(v) for k, v in per.items()}


class FlushRecorder(Recorder):
    """… with a `flush()`"""

    def flush(self):
        pass


class FileLikeRecorder(FlushRecorder):
    """… with the usual attributes of an open text file"""
    encoding = "utf-8"
    errors = "backslashreplace"

    @property
    def closed(self):
        return self.c04_closed

    def isatty(self):
        return False

    def writable(self):
        return True

    def fileno(self):
        raise OSError("no file descriptor")


STDERR_FLAVOURS = {"minimal": Recorder, "flush": FlushRecorder, "filelike": FileLikeRecorder}
# every member of a file object other than write() that a reporter might be tempted to use
STDERR_MEMBERS = ["flush", "isatty", "closed", "encoding", "errors", "fileno", "writable", "buffer", "*"]


class Trap:
    """what a hostile stream hands out for an attribute: any use of it raises"""

    def __init__(self, exc):
        object.__setattr__(self, "c04_exc", exc)

    def _boom(self, *a, **k):
        raise object.__getattribute__(self, "c04_exc")()
    __call__ = __bool__ = __str__ = __repr__ = __iter__ = __len__ = __int__ = __index__ = __eq__ = __ne__ = _boom
    __hash__ = None

    def __getattr__(self, name):
        raise object.__getattribute__(self, "c04_exc")()


def make_hostile(base, member, kind):
    """a healthy file-like stderr (`base`) in which ONE member other than write() – or every one of them (`*`) –
    fails with `kind` when it is used: the SECOND fault on the reporting path.  write() keeps working, so on a tree
    where the reporter uses nothing but write() this changes nothing."""
    def exc():
        return STDERR_ERR[kind]("sys.stderr.%s is broken" % member)

    def raising_method(self, *a, **k):
        raise exc()

    def raising_attr(self):
        raise exc()
    ns = {}
    members = [m for m in STDERR_MEMBERS if m != "*"] if member == "*" else [member]
    for m in members:
        ns[m] = raising_method if m in ("flush", "isatty", "fileno", "writable") else property(raising_attr)
    if member == "*":
        def __getattr__(self, name):
            if name.startswith("c04_") or name.startswith("__"):
                raise AttributeError(name)
            return Trap(exc)
        ns["__getattr__"] = __getattr__
    return type("Hostile_%s_%s" % ("all" if member == "*" else member, kind), (base,), ns)


def mk_recorder(scn, mode):
    fl = (scn or {}).get("stderr_flavour", "minimal")
    if fl.startswith("hostile:"):
        _, member, kind = fl.split(":")
        return make_hostile(FileLikeRecorder, member, kind)(mode)
    return STDERR_FLAVOURS[fl](mode)


def hostile_flavour(rng):
    return "hostile:%s:%s" % (rng.choice(STDERR_MEMBERS), rng.choice(["OSError", "OSError", "BrokenPipeError",
                                                                       "ValueError", "RuntimeError", "AttributeError"]))


BLOCK = re.compile(r"--- Logging error in Loguru Handler #(\d+) ---\nRecord was: (.*?)\n(.*?)--- End of logging error ---\n",
                   re.S)


def _is_junk(text):
    """anything on stderr that is not a report block – except the interpreter's own 'never awaited' warnings
    (a coroutine whose scheduling failed)"""
    lines, skip = [], False
    for l in text.split("\n"):
        if "RuntimeWarning" in l or "tracemalloc" in l or "never awaited" in l:
            skip = True              # the warning line; the source line printed under it is indented
            continue
        if skip and l.startswith(" "):
            continue
        skip = False
        if l.strip():
            lines.append(l)
    return bool(lines)


HEADER = re.compile(r"--- Logging error in Loguru Handler #(\d+) ---\n")


def _rec_tag(rec):
    if rec == "None":
        return None, False
    if rec.startswith("/!\\ Unprintable record"):
        return -1, True
    mi = re.search(r"'i': (\d+)", rec)
    return (int(mi.group(1)) if mi else -2), False


def parse_reports(per_thread):
    """stderr text -> report events: complete blocks (R…) and blocks stderr accepted only in part (P…)"""
    events, junk = [], []
    for name, text in per_thread.items():
        src = "w" if name.startswith("loguru-writer-") else "m"
        heads = list(HEADER.finditer(text))
        lead = text[:heads[0].start()] if heads else text
        if _is_junk(lead):
            junk.append(lead)
        for n, hm in enumerate(heads):
            seg = text[hm.start():heads[n + 1].start() if n + 1 < len(heads) else len(text)]
            hid = int(hm.group(1))
            m = BLOCK.match(seg)
            if m:
                tb = [l for l in m.group(3).split("\n") if l.strip()]
                last = tb[-1] if tb else ""
                mm = re.match(r"([\w.]+)", last)
                kind = kind_of_name(mm.group(1)) if mm else "Other"
                msg, ph = _rec_tag(m.group(2))
                events.append(ev_report(hid, msg, kind, ph, src))
                if _is_junk(seg[m.end():]):
                    junk.append(seg[m.end():])
                continue
            rest = seg[hm.end() - hm.start():]
            chunks, msg, ph = "h", None, False
            rm = re.match(r"Record was: (.*?)\n", rest, re.S)
            if rm:
                chunks += "r"
                msg, ph = _rec_tag(rm.group(1))
                rest = rest[rm.end():]
                if rest.strip():
                    chunks += "t"
            elif rest.strip():
                junk.append(rest)
            events.append(ev_partial(hid, msg, ph, chunks, src))
    return events, junk


ANSI = re.compile(r"\x1b\[[0-9;]*m")


def idx_of_text(text, serialize):
    try:
        if serialize:
            text = json.loads(text)["text"]
        first = ANSI.sub("", text).split("\n")[0]
        if first.startswith("m") and first[1:].isdigit():
            return int(first[1:])
    except Exception:  # noqa
        pass
    return "?" + repr(text)[:30]


class LoopProxy:
    """what a coroutine sink gets as `loop=`: the running loop, except that `create_task` fails as the fault
    table says for the message the coroutine was made for"""

    def __init__(self, impl, h, real):
        self._impl, self._h, self._real = impl, h, real

    def create_task(self, coro, **kw):
        try:
            i = coro.cr_frame.f_locals["message"].record["extra"]["i"]
        except Exception:  # noqa
            i = -1
        k = self._impl.t["faults"].get((i, self._h, "write"))
        if k is not None:
            coro.close()
            raise mk_exc(k, self._h, i, "write")
        return self._real.create_task(coro, **kw)

    def __getattr__(self, name):
        return getattr(self._real, name)


class Impl:
    def __init__(self, scn, tmp, rec):
        from loguru._logger import Core, Logger
        self.scn, self.t, self.tmp, self.rec = scn, S(scn), tmp, rec
        self.lg = Logger(core=Core(), exception=None, depth=0, record=False, lazy=False, colors=False, raw=False,
                         capture=True, patchers=[], extra={})
        self.contents = {}
        self.files = {}
        self.cur_k = -1
        self.loop_errors = []
        self.last_i = {}
        self.old_recs = []

    # -- user callables ------------------------------------------------------------------------
    def fault(self, i, h, stage):
        k = self.t["faults"].get((i, h, stage))
        if k is not None:
            raise mk_exc(k, h, i, stage)

    def extras(self, i):
        t = self.t
        ex = {"i": i}
        for h in t["handlers"]:
            k = t["faults"].get((i, h, "formatMap"))
            if k is None:
                ex["f%d" % h] = ""
            elif k != "KeyError":
                ex["f%d" % h] = Raiser(k)
        ser = [k for (ii, h, st), k in t["faults"].items() if ii == i and st == "serialize"]
        if ser:
            ex["ser"] = BadStr(ser[0])
        put = [k for (ii, h, st), k in t["faults"].items() if ii == i and st == "put"]
        if put:
            ex["pk"] = Unpicklable(put[0])
        get = [k for (ii, h, st), k in t["faults"].items() if ii == i and st == "get"]
        if get:
            ex["up"] = BadUnpickle(get[0])
        if i in t["strfails"]:
            ex["bad"] = BadRepr()
        return ex

    def log(self, i):
        t = self.t
        lg = self.lg.bind(**self.extras(i))
        opts = {}
        if i in t["exc"]:
            bad = any(st == "excFormat" and ii == i for (ii, h, st) in t["faults"])
            if bad:
                opts["exception"] = (ValueError, ValueError("e%d" % i), object())
            else:
                opts["exception"] = ValueError("e%d" % i)
        text = "m%d" % i
        if i in t["colors"]:
            opts["colors"] = True
            text = "<red>m%d</red>" % i          # visible text "m<i>"; SGR codes on colorize=True handlers
        if i in t["raw"]:
            opts["raw"] = True
            text += "\n"                          # a raw message brings its own line end
        if opts:
            lg = lg.opt(**opts)
        lg.log(LEVEL_NAMES[level_of(t, i)], text)

    def on_filter(self, h, record):
        self.pre_stage(h, record, "filter")

    def on_format(self, h, record):
        self.pre_stage(h, record, "dynFormat")

    def pre_stage(self, h, record, stage):
        """oracle-only stream `pre-lock-reenter`: the filter / format function of one handler uses the logger (for outer
        messages only).  These run BEFORE the handler lock is taken: not a re-entry, the inner call is a whole _log"""
        pre = self.scn.get("pre")
        i = record["extra"]["i"]
        if pre and pre["stage"] == stage and h == pre["pos"] and i < 100:
            self.log(100 + i)

    def on_write(self, h, message):
        """common body of every synchronous sink"""
        i = message.record["extra"]["i"]
        c = self.t["handlers"][h]
        for a in self.t["reenter"].get((i, h), []):      # the logger used from inside its own sink
            if isinstance(a, int):
                self.log(a)
            elif a == "c":
                self.lg.complete()
            else:
                self.cur_k = int(a[1:])
                self.lg.remove(h)
        self.fault(i, h, "write")
        self.last_i[h] = i
        return i

    def add(self, c):
        h, kind = c["id"], c["kind"]
        me = self
        self.contents[h] = []
        kw = {}
        ser = bool(c["serialize"])
        if kind == "callable":
            def sink(message):
                me.on_write(h, message)
                me.contents[h].append(idx_of_text(str(message), ser))
        elif kind in ("stream", "streamFlush"):
            class Stream:
                def write(self, message):
                    me.on_write(h, message)
                    me.contents[h].append(idx_of_text(str(message), ser))
            if c.get("stoppable", 1):
                def stop(self):
                    me.fault(me.cur_k, h, "stop")
                Stream.stop = stop
            if kind == "streamFlush":
                def flush(self):
                    me.fault(me.last_i.get(h, -1), h, "flush")
                Stream.flush = flush
            sink = Stream()
        elif kind == "file":
            sink = os.path.join(self.tmp, "h%d.log" % h)
            self.files[h] = sink
            has_stop_fault = any(st == "stop" and hh == h for (_, hh, st) in self.t["faults"])
            if has_stop_fault:
                def retention(files):
                    me.fault(me.cur_k, h, "stop")
                kw["retention"] = retention
            else:
                def rotation(message, file):
                    me.on_write(h, message)
                    return False
                kw["rotation"] = rotation
        elif kind == "coroutine":
            async def sink(message):
                i = message.record["extra"]["i"]
                me.fault(i, h, "coroBody")
                me.contents[h].append(idx_of_text(str(message), ser))
            # the synchronous part of AsyncSink.write = scheduling the task on the loop: a loop object that
            # refuses (a closed loop raises RuntimeError; here any kind, from the fault table) fails the `write` stage
            if not self.scn["noloop"]:
                kw["loop"] = LoopProxy(self, h, asyncio.get_running_loop())
        else:
            class H(logging.Handler):
                def createLock(self):
                    self.lock = None      # a deadlocked scenario must not block logging.shutdown() at exit

                def emit(self, record):
                    class M:
                        pass
                    m = M()
                    m.record = {"extra": record.extra}
                    me.on_write(h, m)
                    me.contents[h].append(idx_of_text(record.getMessage(), ser))

                def close(self):
                    logging.Handler.close(self)
                    me.fault(me.cur_k, h, "stop")
            sink = H()
        if c["filter"]:
            def flt(record):
                i = record["extra"]["i"]
                me.on_filter(h, record)
                me.fault(i, h, "filter")
                return (i, h) not in me.t["rejects"]
            kw["filter"] = flt
        if c["dynamic"]:
            def fmt(record):
                me.on_format(h, record)
                me.fault(record["extra"]["i"], h, "dynFormat")
                return "{message}{extra[f%d]}\n{exception}" % h
            kw["format"] = fmt
        else:
            kw["format"] = "{message}{extra[f%d]}" % h
        hid = self.lg.add(sink, level=c["level"], catch=bool(c["catch"]), enqueue=bool(c["enqueue"]),
                          serialize=ser, colorize=bool(c.get("colorize", 0)), backtrace=bool(c.get("backtrace", 0)),
                          diagnose=False, **kw)
        if hid != h:
            raise RuntimeError("handler ids are not consecutive: %r != %r" % (hid, h))

    # -- observation -------------------------------------------------------------------------------
    def sinks(self):
        out = {}
        for h, c in self.t["handlers"].items():
            if c["kind"] == "file":
                try:
                    with open(self.files[h], encoding="utf8") as f:
                        lines = f.read().split("\n")
                except OSError:
                    lines = []
                lines = [ANSI.sub("", l) if not c["serialize"] else l for l in lines]
                lines = [l for l in lines if l and (l.startswith("m") or l.startswith("{"))]
                out[h] = [idx_of_text(l, bool(c["serialize"])) for l in lines]
            else:
                out[h] = list(self.contents[h])
        return out

    def registry(self):
        return [int(x) for x in re.findall(r"\(id=(\d+),", repr(self.lg))]

    def min_level(self):
        v = getattr(getattr(self.lg, "_core", None), "min_level", None)
        if v is None:
            return None
        return "inf" if v == float("inf") else int(v)

    def loop_handler(self, loop, context):
        e = context.get("exception")
        tag = getattr(e, "tag", None)
        if tag is not None:
            self.loop_errors.append("L%d.%d.%s" % (tag[0], tag[1], kind_of(e)))
        else:
            self.loop_errors.append("L?.%s" % (context.get("message"),))

    async def run(self, obs):
        scn = self.scn
        if not scn["noloop"]:
            asyncio.get_running_loop().set_exception_handler(self.loop_handler)
        for h in scn["handlers"]:
            self.add(h)              # inside the loop: an enqueue coroutine sink captures the running loop
        seq = scn.get("stderr_seq")
        for gi, g in enumerate(scn["groups"]):
            if seq:
                self.switch_stderr(seq[gi])
            results = []
            for op in g:
                try:
                    if op[0] == "l":
                        self.log(op[1])
                    elif op[0] == "c":
                        await self.lg.complete()
                    elif op[0] == "R":
                        self.cur_k = op[1]
                        self.lg.remove()
                    else:
                        self.cur_k = op[2]
                        self.lg.remove(op[1])
                    results.append("ok")
                except Exception as e:  # noqa
                    results.append(kind_of(e))
            if not scn["noloop"]:
                await asyncio.sleep(0)      # let done-callbacks run
            events, junk = parse_reports(self.rec.take()) if self.rec is not None else ([], [])
            events += self.loop_errors
            self.loop_errors = []
            if junk:
                events.append("JUNK:" + repr(junk[0][:80]))
            stale = sum(r.c04_stale for r in self.old_recs)
            if stale:
                events.append("STALE-STDERR-WRITES:%d" % stale)     # a stream that is no longer sys.stderr was written
                for r in self.old_recs:
                    r.c04_stale = 0
            ml = self.min_level()
            obs.append(show_obs(results, events, self.registry(), ml, self.sinks()))
        return obs

    def switch_stderr(self, e):
        """what a program does between two logging calls: redirect_stderr / per-call capture / re-opened streams"""
        if e.get("fresh") or (self.rec is None) != (e["mode"] == "absent") or \
                (self.rec is not None and self.rec.c04_mode != e["mode"]):
            if self.rec is not None:
                self.rec.c04_retired = True
                self.rec.c04_closed = bool(e.get("close_prev"))
                self.old_recs.append(self.rec)
            self.rec = None if e["mode"] == "absent" else mk_recorder(self.scn, e["mode"])
            sys.stderr = self.rec

    def cleanup(self):
        self.cur_k = -1
        try:
            self.lg.remove()
        except Exception:  # noqa
            pass


def _runner(scn, box):
    tmp = tempfile.mkdtemp(prefix="c04_")
    mode = scn["stderr"]
    rec = None if mode == "absent" else mk_recorder(scn, mode)
    old = sys.stderr
    impl = None
    try:
        sys.stderr = rec
        impl = Impl(scn, tmp, rec)
        obs = box["obs"]
        if scn["noloop"]:
            co = impl.run(obs)
            try:
                co.send(None)
                raise RuntimeError("scenario coroutine suspended without an event loop")
            except StopIteration:
                pass
        else:
            asyncio.run(impl.run(obs))
        box["done"] = True
    except BaseException as e:  # infrastructure error, reported by the caller
        box["exc"] = e
    finally:
        try:
            if impl is not None:
                box["cleanup"] = True
                impl.cleanup()
        finally:
            sys.stderr = old
            shutil.rmtree(tmp, ignore_errors=True)


_HANG_HOOK = []


def _hang_seen():
    """a deadlocked scenario thread may hold locks that interpreter shutdown wants (logging, multiprocessing):
    once a hang has been seen (which is always reported as a violation, exit code 1) leave through os._exit
    after everything has been written"""
    if not _HANG_HOOK:
        import atexit

        def leave():
            try:
                sys.stdout.flush()
                sys.stderr.flush()
            finally:
                os._exit(1)
        atexit.register(leave)
        _HANG_HOOK.append(leave)


def run_impl(scn, timeout=WATCHDOG_S):
    """-> (status, observations); status 'ok' | 'hang'"""
    box = {"obs": []}
    old = sys.stderr
    th = threading.Thread(target=_runner, args=(scn, box), daemon=True, name="c04-scenario")
    th.start()
    th.join(timeout)
    if th.is_alive() and not box.get("cleanup"):
        sys.stderr = old
        _hang_seen()
        return "hang", list(box["obs"]) + ["BLOCKED"]
    if th.is_alive():
        th.join(timeout)
        sys.stderr = old
        if th.is_alive():
            _hang_seen()
            return "hang", list(box["obs"]) + ["BLOCKED-IN-CLEANUP"]
    if "exc" in box:
        raise box["exc"]
    return "ok", box["obs"]


# ----------------------------------------------------------------------------- oracle-only streams
def run_watchdog(target, params, timeout=WATCHDOG_S):
    """run target(params, box) in a watchdog thread -> (status, box)"""
    box = {}
    old = sys.stderr
    th = threading.Thread(target=target, args=(params, box), daemon=True, name="c04-oracle")
    th.start()
    th.join(timeout)
    sys.stderr = old
    if th.is_alive():
        _hang_seen()
        return "hang", box
    if "exc" in box:
        raise box["exc"]
    return "ok", box


class ConcImpl(Impl):
    """several threads log to the same handler while its sink re-uses the logger (handler 0 = the one under
    test, handler 1 = a plain recorder registered after it)"""

    def __init__(self, params, tmp, rec):
        scn = empty_scn([base_handler(0, kind=params["kind"], catch=params["catch"], filter=1), base_handler(1)], [])
        Impl.__init__(self, scn, tmp, rec)
        self.params = params
        self.n = params["threads"]
        self.past_filter = [threading.Event() for _ in range(self.n)]
        self.in_sink0 = threading.Event()
        for h in scn["handlers"]:
            self.add(h)

    def log_t(self, k, i):
        self.lg.bind(t=k, **self.extras(i)).log("INFO", "m%d" % i)

    def on_filter(self, h, record):
        k, i = record["extra"].get("t"), record["extra"]["i"]
        if h == 0 and k is not None and i < 100:
            self.past_filter[k].set()        # this thread is about to take (or wait for) the handler lock

    def on_write(self, h, message):
        ex = message.record["extra"]
        i, k = ex["i"], ex.get("t")
        if h == 0 and k is not None and i < 100 and (k == 0 or self.params["reenter_all"]):
            if k == 0:
                self.in_sink0.set()
                for j in range(1, self.n):
                    self.past_filter[j].wait(3.0)
                time.sleep(self.params["grace"])      # let the other threads reach the lock
            self.log_t(k, 100 + k)                     # the logger used from inside its own sink
        self.last_i[h] = i
        return i


def _conc_runner(params, box):
    tmp = tempfile.mkdtemp(prefix="c04_")
    rec = Recorder("ok")
    old = sys.stderr
    try:
        sys.stderr = rec
        impl = ConcImpl(params, tmp, rec)
        n = impl.n
        results = [None] * n

        def worker(k):
            try:
                impl.log_t(k, k)
                results[k] = "ok"
            except Exception as e:  # noqa
                results[k] = kind_of(e)
        ths = [threading.Thread(target=worker, args=(k,), daemon=True, name="c04-logger-%d" % k) for k in range(n)]
        ths[0].start()
        impl.in_sink0.wait(3.0)
        for t in ths[1:]:
            t.start()
        deadline = time.time() + WATCHDOG_S - 2
        for t in ths:
            t.join(max(0.1, deadline - time.time()))
        box["hung"] = [t.name for t in ths if t.is_alive()]
        if not box["hung"]:
            try:
                impl.log_t(None, 9)              # the following message
                after = "ok"
            except Exception as e:  # noqa
                after = kind_of(e)
            events, junk = parse_reports(rec.take())
            box["obs"] = {"results": results, "after": after, "events": sorted(events),
                          "sinks": {str(h): sorted(v, key=str) for h, v in impl.sinks().items()},
                          "junk": [j[:80] for j in junk]}
            impl.cleanup()
        box["done"] = True
    except BaseException as e:  # noqa
        box["exc"] = e
    finally:
        sys.stderr = old
        shutil.rmtree(tmp, ignore_errors=True)


def conc_expected(params):
    """the property: every use of the logger from inside the handler's own sink is detected (reported with
    catch=True, raised to that caller with catch=False), nobody blocks, the others and the following message
    are unaffected"""
    n, catch = params["threads"], params["catch"]
    results, events, s0, s1 = [], [], [], []
    for k in range(n):
        if k == 0 or params["reenter_all"]:
            if catch:
                events.append(ev_report(0, 100 + k, "RuntimeError", False, "m"))
                results.append("ok")
                s0.append(k)
                s1 += [100 + k, k]
            else:
                results.append("RuntimeError")
        else:
            results.append("ok")
            s0.append(k)
            s1.append(k)
    s0.append(9)
    s1.append(9)
    return {"results": results, "after": "ok", "events": sorted(events),
            "sinks": {"0": sorted(s0, key=str), "1": sorted(s1, key=str)}, "junk": []}


def conc_cases():
    out = []
    for kind in ("callable", "stream", "streamFlush", "standard", "file"):
        for catch in (1, 0):
            for threads in (2, 3):
                for reenter_all in (0, 1):
                    out.append({"kind": kind, "catch": catch, "threads": threads, "reenter_all": reenter_all,
                                "grace": 0.12})
    return out


def judge_conc(ctx, params):
    status, box = run_watchdog(_conc_runner, params)
    exp = conc_expected(params)
    obs = box.get("obs")
    ctx.case(("conc", json.dumps(params, sort_keys=True)), nontrivial=True)
    ctx.stat("concurrent_reentry")
    if status == "hang" or box.get("hung"):
        ctx.violation("threads %r log to handler 0 (%s, catch=%s) while its sink uses the logger: still blocked "
                      "after %.0f s (deadlock); the property demands RuntimeError detection and no blocking"
                      % (box.get("hung") or "all", params["kind"], params["catch"], WATCHDOG_S),
                      {"oracle_only": "concurrent-reentry", "params": params, "expected": exp,
                       "observed": {"hung": box.get("hung", "watchdog")}})
        _hang_seen()
        return True
    if obs != exp:
        ctx.violation("concurrent re-entrancy %r: property demands %r, implementation did %r" % (params, exp, obs),
                      {"oracle_only": "concurrent-reentry", "params": params, "expected": exp, "observed": obs})
        return True
    return False


def _closed_loop_runner(params, box):
    """a coroutine sink bound to an explicit loop (`loop=`; with enqueue=True the loop captured at add()) that is
    CLOSED before later messages: scheduling the task fails – that is a failure of the sink's write stage"""
    from loguru._logger import Core, Logger
    rec = Recorder("ok")
    old = sys.stderr
    loop = asyncio.new_event_loop()
    try:
        sys.stderr = rec
        lg = Logger(core=Core(), exception=None, depth=0, record=False, lazy=False, colors=False, raw=False,
                    capture=True, patchers=[], extra={})
        sinks = {0: [], 1: [], 2: []}

        def mk(h):
            return lambda m: sinks[h].append(idx_of_text(str(m), False))

        async def coro(m):
            sinks[1].append(idx_of_text(str(m), False))
        order = params["position"]       # position of the coroutine handler among the three
        hid_of = {}
        plain = [0, 2]
        for pos in range(3):
            if pos == order:
                hid_of[1] = lg.add(coro, format="{message}", loop=loop, catch=bool(params["catch"]),
                                   enqueue=bool(params["enqueue"]))
            else:
                h = plain.pop(0)
                hid_of[h] = lg.add(mk(h), format="{message}")
        results = []
        nmsg = params["before"] + params["after"]
        for i in range(nmsg):
            if i == params["before"]:
                loop.close()
            try:
                lg.bind(i=i).info("m%d" % i)
                results.append("ok")
            except Exception as e:  # noqa
                results.append(kind_of(e))
            try:
                aw = lg.complete()
                if i < params["before"]:
                    loop.run_until_complete(aw)
            except Exception as e:  # noqa
                results.append("complete:" + kind_of(e))
        events, junk = parse_reports(rec.take())
        box["obs"] = {"results": results, "events": sorted(events),
                      "sinks": {str(h): sinks[h] for h in sinks}, "junk": [j[:80] for j in junk],
                      "coroutine_handler_id": hid_of[1]}
        try:
            lg.remove()
        except Exception:  # noqa
            pass
        box["done"] = True
    except BaseException as e:  # noqa
        box["exc"] = e
    finally:
        sys.stderr = old
        if not loop.is_closed():
            loop.close()


def closed_loop_expected(params):
    pos, catch, enq = params["position"], params["catch"], params["enqueue"]
    results, events = [], []
    sinks = {"0": [], "1": [], "2": []}
    first_plain_before = pos > 0            # plain handler 0 is registered before the coroutine sink?
    for i in range(params["before"] + params["after"]):
        if i < params["before"]:
            results.append("ok")
            for h in sinks:
                sinks[h].append(i)
            continue
        # the loop is closed: loop.create_task raises RuntimeError inside sink.write
        if enq or catch:
            events.append(ev_report(pos, i, "RuntimeError", False, "w" if enq else "m"))
            results.append("ok")
            sinks["0"].append(i)
            sinks["2"].append(i)
        else:
            results.append("RuntimeError")      # reaches the caller; handlers registered earlier have the message
            plain_before = {0: [], 1: ["0"], 2: ["0", "2"]}[pos]
            for h in plain_before:
                sinks[h].append(i)
    return {"results": results, "events": sorted(events), "sinks": sinks, "junk": [], "coroutine_handler_id": pos}


def closed_loop_cases():
    return [{"position": p, "catch": c, "enqueue": e, "before": b, "after": a}
            for p in (0, 1, 2) for c in (1, 0) for e in (0, 1) for (b, a) in ((1, 2), (0, 1), (2, 1))]


def judge_closed_loop(ctx, params):
    status, box = run_watchdog(_closed_loop_runner, params)
    exp = closed_loop_expected(params)
    obs = box.get("obs")
    ctx.case(("closed-loop", json.dumps(params, sort_keys=True)), nontrivial=True)
    ctx.stat("closed_loop")
    if status == "hang":
        ctx.violation("coroutine sink on a closed loop %r: did not terminate (deadlock)" % (params,),
                      {"oracle_only": "closed-loop", "params": params, "expected": exp, "observed": "hang"})
        return True
    if obs != exp:
        ctx.violation("coroutine sink whose loop was closed %r: property demands %r, implementation did %r"
                      % (params, exp, obs),
                      {"oracle_only": "closed-loop", "params": params, "expected": exp, "observed": obs})
        return True
    return False


# ----------------------------------------------------------------------------- logger used before the lock
def pre_cases():
    out = []
    for stage in ("filter", "dynFormat"):
        for pos in (0, 1, 2):
            for catch in (1, 0):
                for victim in (None, 0, 1, 2):
                    if victim == pos:
                        continue
                    for kind in ("callable", "streamFlush", "file", "standard"):
                        out.append({"stage": stage, "pos": pos, "catch": catch, "victim": victim, "kind": kind})
    return out


def pre_scn(p):
    hs = [base_handler(h) for h in range(3)]
    hs[p["pos"]].update(kind=p["kind"], catch=p["catch"], filter=int(p["stage"] == "filter"),
                        dynamic=int(p["stage"] == "dynFormat"))
    scn = empty_scn(hs, [[["l", 0], ["c"]], [["l", 1], ["c"]], [["l", 2], ["c"]]])
    scn["pre"] = {"pos": p["pos"], "stage": p["stage"]}
    if p["victim"] is not None:
        hs[p["victim"]]["catch"] = 0
        scn["faults"] = [[101, p["victim"], "write", "KeyError"]]     # fails on the second inner message only
    return scn


def pre_expected(p):
    """the property: filter and format function run before the handler's lock is taken, so a logging call made there
    is an ordinary call – every handler (this one included) processes the inner message; an exception that escapes
    from it (a catch=False handler failing on the inner message) is a failure of THIS handler's filter / format
    stage: reported or raised as its `catch` says; nobody is blocked, the next message is unaffected"""
    sinks = {0: [], 1: [], 2: []}
    obs = []

    def log(i, events):
        for h in range(3):
            if h == p["pos"] and i < 100:
                err = log(100 + i, events)
                if err is not None:
                    if p["catch"]:
                        events.append(ev_report(h, i, err, False, "m"))
                        continue
                    return err
            if h == p["victim"] and i == 101:
                return "KeyError"
            sinks[h].append(i)
        return None
    for i in range(3):
        events = []
        err = log(i, events)
        obs.append(show_obs(["ok" if err is None else err, "ok"], events, [0, 1, 2], 0, sinks))
    return obs


def judge_pre(ctx, p, model_line=None):
    scn = pre_scn(p)
    status, obs = run_impl(scn)
    exp = pre_expected(p)
    if model_line is not None and p["stage"] == "filter":
        # the filter variant is part of the Lean model (Emit/PreLock.lean: loopNP): compare as well
        mo = model_line.split("|")
        if status != "hang" and obs != mo:
            ctx.broke("correspondence Emit.loopNP (logger used from a filter)",
                      "case=%r impl=%r model=%r" % (p, obs, mo))
            if obs == exp:
                ctx.violation("the filter of handler %d uses the logger (%r): Lean model (filter_using_logger_restores_"
                              "everything, filter_escape_is_filter_stage_failure) says %r, implementation did %r"
                              % (p["pos"], p, mo, obs),
                              {"oracle_only": "pre-lock-reenter", "params": p, "scenario": scn, "expected": mo,
                               "observed": obs, "status": status}, kind="correspondence")
                return True
    ctx.case(("pre-lock-reenter", json.dumps(p, sort_keys=True)), nontrivial=True)
    ctx.stat("logger_used_in_filter_or_format_function")
    if status == "hang" or obs != exp:
        d = next((k for k in range(len(exp)) if k >= len(obs) or obs[k] != exp[k]), 0)
        ctx.violation("the %s of handler %d uses the logger (%r): group %d: property demands %r, implementation did %r"
                      % ("filter" if p["stage"] == "filter" else "format function", p["pos"], p, d, exp[d],
                         obs[d] if d < len(obs) else status),
                      {"oracle_only": "pre-lock-reenter", "params": p, "scenario": scn, "expected": exp,
                       "observed": obs, "status": status})
        return True
    return False


# ----------------------------------------------------------------------------- ErrorInterceptor.print, call by call
class PrintStream:
    """a stderr that refuses one chunk of a report; `truthy=False`: an object that is there but falsy.  Nothing but
    `write()` (and `__bool__`) is offered in the minimal flavour"""

    def __init__(self, fail, truthy=True):
        self.c04_fail, self.c04_truthy, self.c04_writes = fail, truthy, []

    def __bool__(self):
        return self.c04_truthy

    def write(self, text):
        ph = report_phase(text)
        if self.c04_fail is not None and ph == self.c04_fail[0]:
            raise STDERR_ERR[self.c04_fail[1]]("stderr broke at chunk %s" % ph)
        self.c04_writes.append((ph, text))
        return len(text)


class PrintStreamFile(PrintStream):
    closed = False
    encoding = "utf-8"
    errors = "backslashreplace"

    def flush(self):
        pass

    def isatty(self):
        return False

    def writable(self):
        return True

    def fileno(self):
        raise OSError("no file descriptor")


# flavours of the stderr object in the call-by-call stream: nothing but write(); a healthy file; a healthy file in
# which one member other than write() (or all of them) raises OSError / a subclass / something else when used
PRINT_FLAVOURS = ["minimal", "filelike"] + ["hostile:%s:%s" % (m, k) for m in STDERR_MEMBERS
                                            for k in ("OSError", "BrokenPipeError", "ValueError")]


def print_cases():
    out = []
    fails = [None] + [(c, k) for c in CHUNKS for k in ERR_NAMES + ["BrokenPipeError"]]
    for present in ("ok", "none", "falsy"):
        for fail in fails:
            for rec in ("dict", "unprintable", "none"):
                for explicit in (0, 1):
                    for flavour in PRINT_FLAVOURS:
                        out.append({"present": present, "fail": list(fail) if fail else None, "record": rec,
                                    "explicit": explicit, "flavour": flavour})
    return out


def run_print_case(p):
    """one real call of ErrorInterceptor.print -> '<chunks>:<placeholder>:<escaping error>' (+ what was wrong with
    the text of a chunk, if anything)"""
    from loguru._error_interceptor import ErrorInterceptor
    fail = tuple(p["fail"]) if p["fail"] else None
    fl = p.get("flavour", "minimal")
    if fl.startswith("hostile:"):
        cls = make_hostile(PrintStreamFile, fl.split(":")[1], fl.split(":")[2])
    else:
        cls = PrintStreamFile if fl == "filelike" else PrintStream
    stream = None if p["present"] == "none" else cls(fail, truthy=p["present"] == "ok")
    record = None if p["record"] == "none" else {"extra": {"i": 1}, "message": "m1"}
    if p["record"] == "unprintable":
        record["extra"]["bad"] = BadRepr()
    ei = ErrorInterceptor(True, 7)
    old = sys.stderr
    sys.stderr = stream
    try:
        try:
            if p["explicit"]:
                ei.print(record, exception=KeyError("k"))
            else:
                try:
                    raise KeyError("k")
                except KeyError:
                    ei.print(record)
            esc = "-"
        except Exception as e:  # noqa
            esc = kind_of(e)
    finally:
        sys.stderr = old
    writes = stream.c04_writes if stream is not None else []
    chunks, notes, ph = "", [], 0
    for phase, text in writes:
        if not chunks.endswith(phase):
            chunks += phase
        if phase == "h" and "#7 " not in text:
            notes.append("header without the handler id: %r" % text)
        if phase == "r":
            ph = int("Unprintable record" in text)
            if not ph and p["record"] != "none" and "'i': 1" not in text:
                notes.append("record line without the record: %r" % text[:80])
            if p["record"] == "none" and text != "Record was: None\n":
                notes.append("record line for a failing get(): %r" % text[:80])
    if "t" in chunks and not any("KeyError" in t for ph_, t in writes if ph_ == "t"):
        notes.append("traceback without the exception")
    return "%s:%d:%s" % (chunks or "-", ph, esc), notes


def print_expected(p):
    """the property, for a stderr that works / is not there / breaks with OSError: nothing is propagated, the report
    carries handler id and record as far as stderr accepted it; None = outside the property (other error kinds)"""
    if p["present"] != "ok":
        return "-:0:-"
    full = CHUNKS if p["fail"] is None else CHUNKS[:CHUNKS.index(p["fail"][0])]
    if p["fail"] is not None and model_mode(p["fail"][1]) != "OSError":
        return None
    return "%s:%d:-" % (full or "-", int(p["record"] == "unprintable" and "r" in full))


def print_line(p):
    return "print P=%d F=%s S=%d" % (int(p["present"] == "ok"),
                                     "-" if not p["fail"] else "%s:%s" % (p["fail"][0], model_mode(p["fail"][1])),
                                     int(p["record"] == "unprintable"))


def judge_print(ctx, p, model):
    obs, notes = run_print_case(p)
    exp = print_expected(p)
    ctx.case(("print", json.dumps(p, sort_keys=True)), nontrivial=p["fail"] is not None or p["record"] != "dict")
    ctx.stat("print_call")
    bad = False
    if exp is not None and (obs != exp or notes):
        ctx.violation("ErrorInterceptor.print %r: property demands %r, implementation did %r %s"
                      % (p, exp, obs, "; ".join(notes)),
                      {"oracle_only": "print", "params": p, "expected": exp, "observed": obs, "notes": notes})
        bad = True
    if model is not None and obs != model:
        ctx.broke("correspondence Print.printP", "case=%r impl=%r model=%r" % (p, obs, model))
        if not bad:
            ctx.violation("ErrorInterceptor.print %r: Lean model Print.printP Gen.printProgram (characterised by "
                          "print_writes_longest_accepted_prefix) says %r, implementation did %r" % (p, model, obs),
                          {"oracle_only": "print", "params": p, "expected": model, "observed": obs, "notes": notes},
                          kind="correspondence")
        bad = True
    return bad


# ----------------------------------------------------------------------------- generators
def base_handler(hid, **kw):
    h = {"id": hid, "level": 0, "catch": 1, "enqueue": 0, "kind": "callable", "filter": 0, "dynamic": 0,
         "serialize": 0, "stoppable": 1}
    h.update(kw)
    return h


def empty_scn(handlers, groups):
    return {"handlers": handlers, "faults": [], "rejects": [], "reenter": [], "exc": [], "strfails": [],
            "levels": {}, "noloop": 0, "stderr": "ok", "groups": groups}


def stage_valid(stage, c):
    if stage in ("put", "get"):
        return bool(c["enqueue"])
    if stage == "flush":
        return c["kind"] == "streamFlush"
    if stage == "coroBody":
        return c["kind"] == "coroutine"
    if stage == "filter":
        return bool(c["filter"])
    if stage == "dynFormat":
        return bool(c["dynamic"])
    if stage == "serialize":
        return bool(c["serialize"])
    if stage == "stop":
        return stop_runs_user_code(c)
    return True


def product_points():
    """the finite product of DESIGN §4 C04: stage x position x catch x enqueue x kind x word"""
    words = [w for n in (1, 2, 3) for w in range(2 ** n) for _ in [0]]
    pts = []
    for stage in STAGES:
        for pos in (0, 1, 2):
            for catch in (1, 0):
                for enq in (0, 1):
                    for kind in KINDS:
                        for n in (1, 2, 3):
                            for w in range(2 ** n):
                                if stage == "stop" and not ((n == 2 and w == 1) or (n == 3 and w == 1)):
                                    continue
                                pts.append((stage, pos, catch, enq, kind, n, w))
    return pts


def scn_of_point(pt, rng):
    stage, pos, catch, enq, kind, n, w = pt
    c = base_handler(pos, catch=catch, enqueue=enq, kind=kind,
                     filter=int(stage == "filter"), dynamic=int(stage == "dynFormat"),
                     serialize=int(stage == "serialize"))
    if not stage_valid(stage, c):
        return None
    others_kind = ["callable", "stream", "streamFlush", "standard"]
    hs = []
    for hid in range(3):
        if hid == pos:
            hs.append(c)
        else:
            hs.append(base_handler(hid, kind=rng.choice(others_kind)))
    kind_err = rng.choice(ERR_NAMES)
    groups = []
    scn = empty_scn(hs, groups)
    if stage == "stop":
        # n == 2: remove(<that handler>); n == 3: remove() of all – the loop ends at the failing stop()
        groups += [[["l", 0], ["c"]], [["r", pos, 1]] if n == 2 else [["R", 1]], [["l", 2], ["c"]]]
        scn["faults"].append([1, pos, "stop", kind_err])
        if n == 3:
            groups += [[["R", 3]], [["l", 4], ["c"]]]
        return scn
    for i in range(n):
        groups.append([["l", i], ["c"]])
        if (w >> i) & 1:
            if stage == "excFormat":
                if i not in scn["exc"]:
                    scn["exc"].append(i)
                for hh in range(3):
                    scn["faults"].append([i, hh, "excFormat", "AttributeError"])
            else:
                scn["faults"].append([i, pos, stage, kind_err])
    groups.append([["l", n], ["c"]])       # one more good message: everybody must be usable
    scn["stderr_flavour"] = rng.choice(["minimal", "minimal", "flush", "filelike", hostile_flavour(rng),
                                         hostile_flavour(rng)])
    if rng.chance(20):
        c["colorize"] = 1
    for i in range(n + 1):
        if rng.chance(10):
            scn.setdefault("raw", []).append(i)
        if rng.chance(10):
            scn.setdefault("colors", []).append(i)
    if bin(w).count("1") >= 2 and rng.chance(60):
        scn["stderr_seq"] = gen_stderr_seq(rng, len(groups), "ok")
    elif w and rng.chance(20):
        scn["stderr"] = "OSError@" + rng.choice(CHUNKS)    # stderr breaks in the middle of every report
    return scn


def random_scn(rng):
    nh = rng.choice([1, 2, 3, 3])
    stderr = "ok"
    r = rng.below(100)
    if r < 5:
        stderr = "absent"
    elif r < 10:
        stderr = "OSError"
    elif r < 13:
        stderr = rng.choice(["ValueError", "RuntimeError"])
    elif r < 21:
        # the pipe breaks in the middle of a report (a real one raises a subclass of OSError)
        stderr = rng.choice(["OSError", "BrokenPipeError"]) + "@" + rng.choice(CHUNKS)
    elif r < 23:
        stderr = "BrokenPipeError"
    elif r < 26:
        stderr = rng.choice(["ValueError", "RuntimeError"]) + "@" + rng.choice(CHUNKS)
    tame = is_tame(stderr)
    hs = []
    for hid in range(nh):
        kind = rng.choice(KINDS)
        enq = int(rng.chance(30))
        if not tame:
            enq = 0
            if kind == "coroutine":
                kind = "callable"
        hs.append(base_handler(hid, level=rng.choice([0, 0, 0, 10, 20, 30]), catch=int(rng.chance(65)), enqueue=enq,
                               kind=kind, filter=int(rng.chance(40)), dynamic=int(rng.chance(30)),
                               serialize=int(rng.chance(25)),
                               stoppable=int(not (kind in ("stream", "streamFlush") and rng.chance(30))),
                               colorize=int(rng.chance(25)), backtrace=int(rng.chance(20))))
    nm = rng.range(1, 4)
    groups = [[["l", i], ["c"]] for i in range(nm)]
    scn = empty_scn(hs, groups)
    scn["stderr"] = stderr
    scn["stderr_flavour"] = rng.choice(["minimal", "minimal", "flush", "filelike", hostile_flavour(rng),
                                         hostile_flavour(rng)])
    scn["noloop"] = int(rng.chance(6)) if not any(c["enqueue"] and c["kind"] == "coroutine" for c in hs) else 0
    for i in range(nm):
        if rng.chance(25):
            scn["levels"][str(i)] = rng.choice([10, 30])
        if rng.chance(15):
            scn["exc"].append(i)
            if rng.chance(40):
                for c in hs:
                    scn["faults"].append([i, c["id"], "excFormat", "AttributeError"])
        if rng.chance(10):
            scn["strfails"].append(i)
        if rng.chance(14):
            scn.setdefault("raw", []).append(i)          # opt(raw=True): the handler's format is not applied
        if rng.chance(14):
            scn.setdefault("colors", []).append(i)       # opt(colors=True) with markup in the message
        shared = {}
        for c in hs:
            if c["filter"] and rng.chance(15):
                scn["rejects"].append([i, c["id"]])
            nf = 1 if rng.chance(35) else 0
            if nf and rng.chance(25):
                nf = 2
            for _ in range(nf):
                st = rng.choice([s for s in STAGES if s not in ("stop", "excFormat") and stage_valid(s, c)])
                if any(f[0] == i and f[1] == c["id"] and f[2] == st for f in scn["faults"]):
                    continue
                k = rng.choice(ERR_NAMES)
                if st in ("serialize", "put", "get"):
                    # one raising object in `extra` serves every handler of that sort
                    k = shared.setdefault(st, k)
                    for c2 in hs:
                        if stage_valid(st, c2) and not any(
                                f[0] == i and f[1] == c2["id"] and f[2] == st for f in scn["faults"]):
                            scn["faults"].append([i, c2["id"], st, k])
                else:
                    scn["faults"].append([i, c["id"], st, k])
    # re-entrant sink: its write calls logger.info(...) – a whole _log over all handlers
    cand = [c for c in hs if not c["enqueue"] and c["kind"] != "coroutine"]
    if cand and rng.chance(22):
        c = rng.choice(cand)
        i = rng.below(nm)
        isolate = rng.chance(35)           # the other handlers filter the inner messages out
        inner = [100 + i, 200 + i] if rng.chance(40) else [100 + i]
        acts = list(inner)
        r = rng.below(100)
        if r < 18:
            acts.append("r60")               # a one-shot sink: logger.remove(<own id>) from inside write
        elif r < 26:
            acts = ["r60"]
        elif r < 36:
            acts.append("c")                 # logger.complete() from inside the sink
        elif r < 42:
            acts = ["c"]
        inner = [a for a in acts if isinstance(a, int)]
        for a in acts:
            scn["reenter"].append([i, c["id"], a])
        # second level: another handler's sink logs again while it processes the first inner message
        cand2 = [c2 for c2 in cand if c2["id"] != c["id"]]
        if cand2 and not isolate and inner and inner[0] == 100 + i and rng.chance(30):
            c2 = rng.choice(cand2)
            scn["reenter"].append([100 + i, c2["id"], 300 + i])
            inner.append(300 + i)
        for j in inner:
            if str(i) in scn["levels"]:
                scn["levels"][str(j)] = scn["levels"][str(i)]
            for c2 in hs:
                if c2["id"] != c["id"] and isolate:
                    c2["filter"] = 1
                    scn["rejects"].append([j, c2["id"]])
                elif c2["filter"] and rng.chance(20):
                    scn["rejects"].append([j, c2["id"]])
                elif rng.chance(15):
                    st = rng.choice([s for s in ("filter", "dynFormat", "formatMap", "write", "flush", "coroBody")
                                     if stage_valid(s, c2)])
                    if not (c2["kind"] == "file" and st == "write" and
                            any(f[1] == c2["id"] and f[2] == "stop" for f in scn["faults"])):
                        scn["faults"].append([j, c2["id"], st, rng.choice(ERR_NAMES)])
    if scn["noloop"]:
        # without an event loop a coroutine sink returns before it schedules anything: no `write` stage to fail
        kinds = {c["id"]: c["kind"] for c in hs}
        scn["faults"] = [f for f in scn["faults"] if not (f[2] == "write" and kinds.get(f[1]) == "coroutine")]
    # removal
    if rng.chance(35):
        at = rng.range(0, len(groups))
        hid = rng.choice([c["id"] for c in hs] + ([7] if rng.chance(10) else []))
        k = 50
        groups.insert(at, [["r", hid, k]])
        c = next((c for c in hs if c["id"] == hid), None)
        if c is not None and stage_valid("stop", c) and rng.chance(60):
            if not (c["kind"] == "file" and any(f[1] == hid and f[2] == "write" for f in scn["faults"])) \
                    and not (c["kind"] == "file" and any(r[1] == hid for r in scn["reenter"])):
                scn["faults"].append([k, hid, "stop", rng.choice(ERR_NAMES)])
        if rng.chance(30):
            groups.insert(min(at + 1, len(groups)), [["r", hid, 51]])    # removing twice: ValueError
    # remove() of all handlers at once, possibly twice: a stop() that raises ends the loop, the rest stay registered
    if rng.chance(22):
        at = rng.range(1, len(groups))
        for k in ([52, 53] if rng.chance(35) else [52]):
            groups.insert(min(at, len(groups)), [["R", k]])
            at += rng.range(1, 2)
            for c in hs:
                if rng.chance(35) and not any(f[1] == c["id"] and f[2] == "stop" for f in scn["faults"]) \
                        and not (c["kind"] == "file" and (any(f[1] == c["id"] and f[2] == "write" for f in scn["faults"])
                                                          or any(r[1] == c["id"] for r in scn["reenter"]))):
                    # the table may name sinks whose stop() runs no user code: nothing can fail there
                    scn["faults"].append([k, c["id"], "stop", rng.choice(ERR_NAMES)])
    # a removal right after a logging call, with no complete() in between: stop() must drain what is still in the
    # handler's queue (sentinel, join) before the sink is stopped, and cancels the coroutine tasks not yet awaited
    k = 1
    while k < len(groups):
        g, prev = groups[k], groups[k - 1]
        if len(g) == 1 and g[0][0] in ("r", "R") and len(prev) == 2 and prev[0][0] == "l" and prev[1] == ["c"] \
                and rng.chance(40):
            groups[k - 1] = [prev[0], g[0], ["c"]]
            del groups[k]
            continue
        k += 1
    if tame and rng.chance(30):
        scn["stderr_seq"] = gen_stderr_seq(rng, len(groups), scn["stderr"])
    return scn


def gen_stderr_seq(rng, ngroups, first):
    """sys.stderr re-assigned between logging calls: a fresh stream (the old one possibly closed), none, a broken one"""
    seq, mode = [], first
    for g in range(ngroups):
        e = {"mode": mode, "fresh": 0, "close_prev": 0}
        if g > 0:
            r = rng.below(100)
            if r < 55:
                e = {"mode": "ok", "fresh": 1, "close_prev": int(rng.chance(50))}
            elif r < 65:
                e = {"mode": "absent", "fresh": 1, "close_prev": int(rng.chance(50))}
            elif r < 70:
                e = {"mode": "OSError", "fresh": 1, "close_prev": int(rng.chance(50))}
            elif r < 80:
                e = {"mode": "OSError@" + rng.choice(CHUNKS), "fresh": 1, "close_prev": int(rng.chance(50))}
            else:
                e = {"mode": mode, "fresh": 0, "close_prev": 0}
        mode = e["mode"]
        seq.append(e)
    return seq


def is_nontrivial(scn):
    return bool(scn["faults"] or scn["reenter"])


# ----------------------------------------------------------------------------- check
CORPUS = [
    # the test-suite's own point: a failing callable sink, catch=True
    {"handlers": [base_handler(0), base_handler(1)], "faults": [[0, 0, "write", "ValueError"]], "rejects": [],
     "reenter": [], "exc": [], "strfails": [], "levels": {}, "noloop": 0, "stderr": "ok",
     "groups": [[["l", 0], ["c"]], [["l", 1], ["c"]]]},
    # unprintable record + failing format + enqueue worker facing a failing get and a failing write
    {"handlers": [base_handler(0, enqueue=1, kind="streamFlush"), base_handler(1, catch=0)],
     "faults": [[0, 0, "get", "TypeError"], [1, 0, "write", "Other"], [2, 0, "flush", "OSError"],
                [2, 1, "formatMap", "KeyError"]],
     "rejects": [], "reenter": [], "exc": [], "strfails": [2], "levels": {}, "noloop": 0, "stderr": "ok",
     "groups": [[["l", 0], ["c"]], [["l", 1], ["c"]], [["l", 2], ["c"]], [["l", 3], ["c"]]]},
    # stop() raising in remove(), then logging goes on
    {"handlers": [base_handler(0, kind="stream"), base_handler(1, kind="file"), base_handler(2, kind="standard")],
     "faults": [[9, 1, "stop", "OSError"], [10, 2, "stop", "RuntimeError"]], "rejects": [], "reenter": [],
     "exc": [], "strfails": [], "levels": {}, "noloop": 0, "stderr": "ok",
     "groups": [[["l", 0], ["c"]], [["r", 1, 9]], [["l", 1], ["c"]], [["r", 2, 10]], [["r", 2, 11]],
                [["l", 2], ["c"]]]},
    # re-entrant sink, catch=True then catch=False
    {"handlers": [base_handler(0, filter=1), base_handler(1), base_handler(2, filter=1)], "faults": [],
     "rejects": [[100, 0], [100, 2]], "reenter": [[0, 1, 100]], "exc": [], "strfails": [], "levels": {},
     "noloop": 0, "stderr": "ok", "groups": [[["l", 0], ["c"]], [["l", 1], ["c"]]]},
    {"handlers": [base_handler(0, filter=1), base_handler(1, catch=0, kind="standard"), base_handler(2, filter=1)],
     "faults": [], "rejects": [[100, 0], [100, 2]], "reenter": [[0, 1, 100]], "exc": [], "strfails": [],
     "levels": {}, "noloop": 0, "stderr": "ok", "groups": [[["l", 0], ["c"]], [["l", 1], ["c"]]]},
    # a sink calling the logger: the other handlers receive the inner messages (before / after the busy one),
    # one of them (catch=False) fails on an inner message, which escapes through the sink
    {"handlers": [base_handler(0, enqueue=1), base_handler(1, kind="standard"),
                  base_handler(2, catch=0, kind="streamFlush"), base_handler(3, kind="coroutine")],
     "faults": [[200, 2, "write", "KeyError"]], "rejects": [],
     "reenter": [[0, 1, 100], [1, 1, 200], [1, 1, 201], [100, 2, 300]], "exc": [], "strfails": [], "levels": {},
     "noloop": 0, "stderr": "ok", "groups": [[["l", 0], ["c"]], [["l", 1], ["c"]], [["l", 2], ["c"]]]},
    # one-shot sinks: logger.remove(<own id>) from inside write (catch=True, then catch=False), logger.complete() from
    # inside write; the handler is gone afterwards, nobody blocks
    {"handlers": [base_handler(0), base_handler(1, kind="stream"), base_handler(2, catch=0, kind="standard"),
                  base_handler(3, kind="file")],
     "faults": [], "rejects": [], "reenter": [[0, 1, "r60"], [1, 2, 101], [1, 2, "r61"], [2, 3, "c"]],
     "exc": [], "strfails": [], "levels": {}, "noloop": 0, "stderr": "ok",
     "groups": [[["l", 0], ["c"]], [["l", 1], ["c"]], [["l", 2], ["c"]], [["r", 1, 70]], [["l", 3], ["c"]]]},
    # the same handler fails three times while sys.stderr is re-assigned in between (fresh stream, the previous one
    # closed; then no stderr at all; then a fresh one again): every report on the stderr of its moment
    {"handlers": [base_handler(0, kind="streamFlush"), base_handler(1, enqueue=1), base_handler(2)],
     "faults": [[0, 0, "write", "ValueError"], [1, 0, "flush", "OSError"], [1, 1, "write", "KeyError"],
                [2, 0, "formatMap", "KeyError"], [3, 0, "write", "Other"], [3, 1, "get", "TypeError"]],
     "rejects": [], "reenter": [], "exc": [], "strfails": [], "levels": {}, "noloop": 0, "stderr": "ok",
     "stderr_seq": [{"mode": "ok", "fresh": 0, "close_prev": 0}, {"mode": "ok", "fresh": 1, "close_prev": 1},
                    {"mode": "absent", "fresh": 1, "close_prev": 1}, {"mode": "ok", "fresh": 1, "close_prev": 0}],
     "groups": [[["l", 0], ["c"]], [["l", 1], ["c"]], [["l", 2], ["c"]], [["l", 3], ["c"]]]},
    # a sink that logs to its own handler twice in one write (the first detection must not disarm the second)
    {"handlers": [base_handler(0, kind="streamFlush")], "faults": [], "rejects": [],
     "reenter": [[0, 0, 100], [0, 0, 200], [1, 0, 101]], "exc": [], "strfails": [], "levels": {},
     "noloop": 0, "stderr": "ok", "groups": [[["l", 0], ["c"]], [["l", 1], ["c"]], [["l", 2], ["c"]]]},
    # coroutine sink: failing body with catch=True and catch=False; and without an event loop
    {"handlers": [base_handler(0, kind="coroutine"), base_handler(1, kind="coroutine", catch=0)],
     "faults": [[0, 0, "coroBody", "ValueError"], [0, 1, "coroBody", "KeyError"]], "rejects": [], "reenter": [],
     "exc": [], "strfails": [], "levels": {}, "noloop": 0, "stderr": "ok",
     "groups": [[["l", 0], ["c"]], [["l", 1], ["c"]]]},
    {"handlers": [base_handler(0, kind="coroutine"), base_handler(1)], "faults": [], "rejects": [], "reenter": [],
     "exc": [], "strfails": [], "levels": {}, "noloop": 1, "stderr": "ok", "groups": [[["l", 0], ["c"]]]},
    # stderr missing / failing with OSError: silent, never propagated
    {"handlers": [base_handler(0), base_handler(1)], "faults": [[0, 0, "write", "ValueError"]], "rejects": [],
     "reenter": [], "exc": [], "strfails": [], "levels": {}, "noloop": 0, "stderr": "absent",
     "groups": [[["l", 0], ["c"]]]},
    {"handlers": [base_handler(0), base_handler(1)], "faults": [[0, 0, "write", "ValueError"]], "rejects": [],
     "reenter": [], "exc": [], "strfails": [], "levels": {}, "noloop": 0, "stderr": "OSError",
     "groups": [[["l", 0], ["c"]]]},
    # stderr breaks in the MIDDLE of a report (at the record line, the traceback, the footer, the header), for the
    # logging thread and for the enqueue worker, with an unprintable record: never propagated, worker alive
    {"handlers": [base_handler(0, kind="streamFlush"), base_handler(1, enqueue=1), base_handler(2)],
     "faults": [[0, 0, "write", "ValueError"], [0, 1, "write", "KeyError"], [1, 0, "flush", "OSError"],
                [1, 1, "get", "TypeError"], [2, 0, "formatMap", "KeyError"], [2, 1, "write", "Other"],
                [3, 0, "write", "Other"], [3, 1, "write", "IndexError"]],
     "rejects": [], "reenter": [], "exc": [], "strfails": [2], "levels": {}, "noloop": 0, "stderr": "OSError@r",
     "stderr_seq": [{"mode": "OSError@r", "fresh": 0, "close_prev": 0}, {"mode": "OSError@t", "fresh": 1, "close_prev": 1},
                    {"mode": "OSError@f", "fresh": 1, "close_prev": 0}, {"mode": "OSError@h", "fresh": 1, "close_prev": 1},
                    {"mode": "ok", "fresh": 1, "close_prev": 1}],
     "groups": [[["l", 0], ["c"]], [["l", 1], ["c"]], [["l", 2], ["c"]], [["l", 3], ["c"]], [["l", 4], ["c"]]]},
    # remove() of all handlers: the stream without stop() and the callable go quietly, the logging.Handler's close()
    # raises – it is removed nonetheless, the loop ends there, the file sink after it stays registered and usable;
    # a second remove() finishes the job
    {"handlers": [base_handler(0, kind="stream", stoppable=0), base_handler(1, enqueue=1),
                  base_handler(2, kind="standard"), base_handler(3, kind="file"), base_handler(4, kind="streamFlush")],
     "faults": [[9, 0, "stop", "ValueError"], [9, 1, "stop", "ValueError"], [9, 2, "stop", "RuntimeError"],
                [10, 4, "stop", "OSError"]],
     "rejects": [], "reenter": [], "exc": [], "strfails": [], "levels": {}, "noloop": 0, "stderr": "ok",
     "groups": [[["l", 0], ["c"]], [["R", 9]], [["l", 1], ["c"]], [["R", 10]], [["l", 2], ["c"]], [["R", 11]]]},
    # raw and coloured messages through plain / colourising / dynamic-format / serialising handlers: a raw message is
    # not formatted, so its format_map fault is inert (message 1) while the same fault fails message 0 and 2
    {"handlers": [base_handler(0, colorize=1), base_handler(1, dynamic=1, kind="streamFlush", catch=0),
                  base_handler(2, serialize=1, kind="file", colorize=1), base_handler(3, kind="standard", enqueue=1)],
     "faults": [[0, 0, "formatMap", "KeyError"], [1, 0, "formatMap", "KeyError"], [1, 1, "formatMap", "ValueError"],
                [2, 1, "formatMap", "ValueError"], [3, 2, "formatMap", "Other"]],
     "rejects": [], "reenter": [], "exc": [3], "strfails": [], "levels": {"2": 30}, "noloop": 0, "stderr": "ok",
     "raw": [1, 3], "colors": [0, 1, 2],
     "groups": [[["l", 0], ["c"]], [["l", 1], ["c"]], [["l", 2], ["c"]], [["l", 3], ["c"]]]},
    # removal with messages still pending (no complete() in between): the coroutine sink's scheduled task is cancelled
    # (message 0 never reaches it, no report), the enqueue handler's queue is drained before its sink is stopped –
    # including the message whose write fails (reported by the worker) –, the enqueue coroutine sink schedules and
    # then cancels; the last remove() takes the rest
    {"handlers": [base_handler(0, kind="coroutine"), base_handler(1, enqueue=1, kind="stream"),
                  base_handler(2, enqueue=1, kind="coroutine"), base_handler(3), base_handler(4, enqueue=1, kind="file")],
     "faults": [[0, 0, "coroBody", "ValueError"], [1, 1, "write", "KeyError"], [7, 1, "stop", "OSError"]],
     "rejects": [], "reenter": [], "exc": [], "strfails": [], "levels": {}, "noloop": 0, "stderr": "ok",
     "groups": [[["l", 0], ["r", 0, 5], ["c"]], [["l", 1], ["r", 1, 7], ["c"]], [["l", 2], ["r", 2, 8], ["c"]],
                [["l", 3], ["R", 9], ["c"]], [["l", 4], ["c"]]]},
    # DESIGN "Outside": stderr failing with ValueError reaches the caller even with catch=True (model only)
    {"handlers": [base_handler(0), base_handler(1)], "faults": [[0, 0, "write", "KeyError"]], "rejects": [],
     "reenter": [], "exc": [], "strfails": [], "levels": {}, "noloop": 0, "stderr": "ValueError",
     "groups": [[["l", 0], ["c"]], [["l", 1], ["c"]]]},
]


def judge(ctx, scn, status, obs, model_obs, origin):
    """compare implementation with the executable spec (oracle) and with the Lean model"""
    spec = spec_run(scn)
    bad = False
    if status == "hang":
        ctx.violation("%s: the scenario did not terminate within %.0f s (deadlock): observed %r"
                      % (origin, WATCHDOG_S, obs[-3:]),
                      {"scenario": scn, "expected": spec, "observed": obs, "status": status}, kind="oracle")
        return True
    if spec is not None and obs != spec:
        d = next((k for k in range(max(len(obs), len(spec)))
                  if k >= len(obs) or k >= len(spec) or obs[k] != spec[k]), 0)
        ctx.violation("%s: group %d: property demands %r, implementation did %r"
                      % (origin, d, spec[d] if d < len(spec) else None, obs[d] if d < len(obs) else None),
                      {"scenario": scn, "expected": spec, "observed": obs, "status": status}, kind="oracle")
        bad = True
    if model_obs is not None and obs != model_obs:
        ctx.stat("model_disagreements")
        d = next((k for k in range(max(len(obs), len(model_obs)))
                  if k >= len(obs) or k >= len(model_obs) or obs[k] != model_obs[k]), 0)
        ctx.broke("correspondence Emit.runW", "scenario=%s impl=%r model=%r" % (json.dumps(scn), obs, model_obs))
        if not bad:
            ctx.violation("%s: group %d: Lean model (characterised by emit_characterised & co) says %r, "
                          "implementation did %r" % (origin, d, model_obs[d] if d < len(model_obs) else None,
                                                     obs[d] if d < len(obs) else None),
                          {"scenario": scn, "expected": model_obs, "observed": obs, "status": status},
                          kind="correspondence")
        bad = True
    return bad


def run(ctx):
    rng = ctx.rng
    drv = core.Driver(DRIVER)
    boost = 3 if getattr(ctx, "search_boost", False) else 1
    warnings.filterwarnings("ignore", message="coroutine .* was never awaited")
    logging.getLogger().setLevel(logging.WARNING)

    # oracle-only streams outside the sequential model: several logging threads + a re-entrant sink; a coroutine
    # sink whose loop has been closed
    if True:
        crng = rng.fork("oracle-only")
        cc = conc_cases()
        cl = closed_loop_cases()
        pl = pre_cases()
        if ctx.quick:
            crng.shuffle(cc)
            crng.shuffle(cl)
            crng.shuffle(pl)
            cc, cl, pl = cc[:10], cl[:14], pl[:24]
        nbad = 0
        fl = [q for q in pl if q["stage"] == "filter"]
        try:
            pmod = dict(zip([json.dumps(q, sort_keys=True) for q in fl], drv.run([line_of(pre_scn(q)) for q in fl])))
        except core.DriverError:
            pmod = {}              # reported below as the broken driver; the oracle still judges
        for params in pl:
            nbad += judge_pre(ctx, params, pmod.get(json.dumps(params, sort_keys=True)))
            if nbad >= 2:
                break
        nbad = 0
        for params in cl:
            nbad += judge_closed_loop(ctx, params)
            if nbad >= 3:
                break
        nbad = 0
        for params in cc:
            nbad += judge_conc(ctx, params)
            if nbad >= 1:
                break
        if nbad and getattr(ctx, "search_boost", False):
            boost = 1            # a deadlock has been exhibited: no need for the enlarged search below
    scns = []
    for k, scn in enumerate(CORPUS):
        scns.append(("corpus[%d]" % k, scn))
    cdir = os.path.join(core.VERIF, "corpus", "C04")
    if os.path.isdir(cdir):
        for f in sorted(os.listdir(cdir)):
            if f.endswith(".json"):
                scns.append(("corpus/" + f, json.load(open(os.path.join(cdir, f)))["scenario"]))

    pts = product_points()
    prng = rng.fork("product")
    if ctx.quick:
        prng.shuffle(pts)
        # stratified: every stage x catch x enqueue at least once, then a random sample
        seen, first, rest = set(), [], []
        for p in pts:
            key = (p[0], p[2], p[3])
            (first if key not in seen else rest).append(p)
            seen.add(key)
        pts = first + rest[:350 * boost]
    else:
        ctx.exhaustive = True
    npts = 0
    for p in pts:
        scn = scn_of_point(p, prng)
        if scn is None:
            continue
        npts += 1
        ctx.stat("product:" + p[0])
        scns.append(("product%r" % (p,), scn))
    ctx.stat("product_points", npts)
    rrng = rng.fork("random")
    for k in range(ctx.n(500, 6000) * boost):
        scns.append(("random[%d]" % k, random_scn(rrng)))

    lines = [line_of(s) for _, s in scns]
    pcases = print_cases()
    t0 = time.time()
    try:
        plines = sorted({print_line(p) for p in pcases})
        model = drv.run(lines + plines)
        pmodel = dict(zip(plines, model[len(lines):]))
        model = model[:len(lines)] + [pmodel[print_line(p)] for p in pcases]
        ctx.note("model driver: %d scenarios + %d print calls (%d distinct oracles) in %.1fs"
                 % (len(lines), len(pcases), len(plines), time.time() - t0))
    except core.DriverError as e:
        # the model no longer builds (a shape the extractor does not recognise): broken tie; the direct
        # oracle below still looks for a failing input
        ctx.broke("driver:C04 (model does not build against the extracted shape)", str(e))
        model = [None] * (len(lines) + len(pcases))
    # ErrorInterceptor.print call by call: every stderr condition x every chunk x every error kind x record shapes
    # x stderr flavours incl. every member other than write() failing (exhaustive in both tiers: ~19 000 calls, 2 s)
    nbad = 0
    for p, mo in zip(pcases, model[len(lines):]):
        if mo == "bad-op":
            raise RuntimeError("driver rejected print line: " + print_line(p))
        nbad += judge_print(ctx, p, mo)
        if nbad >= 3:
            break
    model = model[:len(lines)]
    hangs = 0
    for (origin, scn), mo in zip(scns, model):
        if mo == "bad-op":
            raise RuntimeError("driver rejected scenario line: " + line_of(scn))
        if mo is not None and mo.startswith("LAYER-MISMATCH"):
            # the handler-level model (Emit/Model.lean) and the registry-level one (Emit/Nested.lean) must agree
            # whenever no sink calls the logger
            ctx.broke("model layers disagree (stepW vs stepWN)", mo[:2000])
            mo = mo.split(" /// ")[1]
        model_obs = mo.split("|") if mo is not None else None
        if not is_tame(scn["stderr"]) and (mo is None or "BLOCKED" in mo):
            continue
        status, obs = run_impl(scn)
        ctx.case(line_of(scn), nontrivial=is_nontrivial(scn))
        ctx.traces_validated += 1
        ctx.stat("stderr:" + scn["stderr"])
        fl = scn.get("stderr_flavour", "minimal").split(":")
        ctx.stat("stderr_flavour:" + fl[0] + ("(" + fl[1] + ")" if len(fl) > 1 else ""))
        if scn.get("stderr_seq"):
            ctx.stat("stderr_reassigned_between_messages")
        if any(not isinstance(r[2], int) for r in scn["reenter"]):
            ctx.stat("sink_calls_remove_or_complete")
        for f in scn["faults"]:
            ctx.stat("fault:" + f[2])
        for h in scn["handlers"]:
            ctx.stat("kind:%s%s%s" % (h["kind"], "+enqueue" if h["enqueue"] else "", "" if h["catch"] else "+nocatch"))
        if scn["reenter"]:
            ctx.stat("reentrant_sink")
        if any(op[0] == "r" for g in scn["groups"] for op in g):
            ctx.stat("with_remove")
        if any(op[0] == "R" for g in scn["groups"] for op in g):
            ctx.stat("with_remove_all")
        if any(len(g) == 3 and g[1][0] in ("r", "R") for g in scn["groups"]):
            ctx.stat("remove_with_messages_pending")
        if any("@" in m for m in [scn["stderr"]] + [e["mode"] for e in scn.get("stderr_seq") or []]):
            ctx.stat("stderr_breaks_mid_report")
        if any(not h.get("stoppable", 1) for h in scn["handlers"]):
            ctx.stat("stream_without_stop_method")
        if origin.startswith("random[") and int(origin[7:-1]) < 3:
            ctx.sample({"scenario": line_of(scn), "impl": obs})
        if judge(ctx, scn, status, obs, model_obs, origin):
            if status == "hang":
                hangs += 1
            if hangs >= 2 or len(ctx.violations) >= 12:
                ctx.note("stopped early after %d violations" % len(ctx.violations))
                break
    # oracle-only: a re-entrant sink behind enqueue=True (runs in the worker thread: not a re-entry, must
    # simply work) – outside the sequential model
    scn = empty_scn([base_handler(0, enqueue=1)], [[["l", 0], ["c"]], [["c"]], [["l", 1], ["c"]], [["c"]]])
    scn["reenter"] = [[0, 0, 100]]
    status, obs = run_impl(scn)
    ctx.case("enqueue-reenter")
    if status == "hang" or not obs or not obs[-1].endswith("0=0.100.1"):
        ctx.violation("a sink behind enqueue=True that logs to its own handler: expected messages 0, 100, 1 in "
                      "the sink, observed %r" % (obs[-1:],),
                      {"scenario": scn, "expected": ["...0=0.100.1"], "observed": obs, "status": status,
                       "oracle_only": "enqueue-reenter"})
    seen, uniq = set(), []
    for b in ctx.broken:
        if b["name"] not in seen:
            seen.add(b["name"])
            uniq.append(b)
    ctx.broken[:] = uniq
    gc.collect()


def replay(ctx, rep):
    if "replay" not in rep:
        print("no failing input was recorded; what no longer checked:")
        for b in rep.get("broken_obligations", []):
            print("  -", b.get("name") if isinstance(b, dict) else b)
        return 1
    r = rep["replay"]
    if r.get("oracle_only") == "print":
        obs, notes = run_print_case(r["params"])
        exp = print_expected(r["params"])
        try:
            model = core.Driver(DRIVER).run([print_line(r["params"])])[0]
        except Exception as e:  # noqa
            model = None
        print("case:          ", r["params"])
        print("implementation:", obs, notes)
        print("property:      ", exp)
        print("model:         ", model)
        bad = (exp is not None and (obs != exp or bool(notes))) or \
            (rep.get("kind") == "correspondence" and model is not None and obs != model)
        print("REPRODUCED" if bad else "not reproduced")
        return 1 if bad else 0
    if r.get("oracle_only") == "pre-lock-reenter":
        status, obs = run_impl(pre_scn(r["params"]))
        exp = pre_expected(r["params"])
        print("case:          ", r["params"])
        print("implementation:", status, obs)
        print("property:      ", exp)
        bad = status == "hang" or obs != exp
        print("REPRODUCED" if bad else "not reproduced")
        sys.stdout.flush()
        if status == "hang":
            os._exit(1)
        return 1 if bad else 0
    if r.get("oracle_only") in ("concurrent-reentry", "closed-loop"):
        warnings.filterwarnings("ignore", message="coroutine .* was never awaited")
        conc = r["oracle_only"] == "concurrent-reentry"
        status, box = run_watchdog(_conc_runner if conc else _closed_loop_runner, r["params"])
        exp = conc_expected(r["params"]) if conc else closed_loop_expected(r["params"])
        print("case:          ", r["oracle_only"], r["params"])
        print("implementation:", status, box.get("obs"), "hung=%r" % (box.get("hung"),))
        print("property:      ", exp)
        bad = status == "hang" or bool(box.get("hung")) or box.get("obs") != exp
        print("REPRODUCED" if bad else "not reproduced")
        sys.stdout.flush()
        if status == "hang" or box.get("hung"):
            os._exit(1)
        return 1 if bad else 0
    scn = r["scenario"]
    status, obs = run_impl(scn)
    print("scenario:      ", line_of(scn))
    print("implementation:", status, obs)
    if r.get("oracle_only") == "enqueue-reenter":
        bad = status == "hang" or not obs or not obs[-1].endswith("0=0.100.1")
        print("REPRODUCED" if bad else "not reproduced")
        return 1 if bad else 0
    spec = spec_run(scn)
    print("property:      ", spec)
    try:
        model = core.Driver(DRIVER).run([line_of(scn)])[0].split("|")
    except Exception as e:  # noqa
        model = None
        print("model:          (driver unavailable: %s)" % (str(e)[:200],))
    else:
        print("model:         ", model)
    bad = status == "hang" or (spec is not None and obs != spec) or \
        (rep.get("kind") == "correspondence" and model is not None and obs != model)
    print("REPRODUCED" if bad else "not reproduced")
    return 1 if bad else 0
