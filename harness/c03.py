"""C03 – deferred delivery (enqueue, coroutine sinks): no loss, FIFO, barrier semantics (DESIGN §4 C03).

Three streams:
 (i)  scheduler stream – the real Handler/Logger.complete/remove on real threads under the baton
      scheduler; queue/event/lock come from a FakeContext passed through the documented `context=`
      parameter; "child processes" are threads using a pickled copy of the logger with their own pid
      (loguru._handler.os shim).  Traces are judged by monitors and replayed on Queue.step (acceptor).
 (ii) real multi-process stream – fork / spawn / forkserver, N processes x M threads x K messages.
 (iii) asyncio stream – coroutine sinks, `await logger.complete()` waits for the tasks of its loop.
"""
import asyncio
import json
import multiprocessing
import os
import pickle
import shutil
import sys
import tempfile
import threading

from harness import core, sched

PROP = "C03"
LEAN_TARGETS = ["LoguruModel.Props.C03"]
AUDIT_FILE = "LoguruModel/Audit/C03.lean"
DRIVER = "C03"
RULE = ("(i) programs of 2-4 producer threads in 1-3 emulated processes (owner, pickled children) x 1-4 ops from "
        "log/complete/remove over one enqueue handler, in 45 % of the programs with error paths (sink refusing some "
        "messages, items the worker cannot un-pickle with an exception class drawn from a pool of 24, records that "
        "cannot be pickled, get() calls that raise without consuming), schedules = DFS with preemption bound + PRNG "
        "over every queue/event/lock/_stopped access; (ii) real processes (fork, spawn, forkserver, raw os.fork) "
        "N x M x K, half of them with unloadable `extra` objects from owner and/or children; (iii) asyncio "
        "tasks with coroutine sinks and PRNG-chosen sleeps, two loops, enqueue=True + coroutine sink; (iv) several "
        "handlers on one logger; non-trivial = schedule with >= 1 preemption and >= 2 "
        "producers, or a real multi-process run with >= 2 processes; distinct by (program, schedule)")
TRUSTED = [
    "multiprocessing.SimpleQueue is FIFO and atomic per put across processes; Event/Lock semantics (emulated by "
    "scheduler-aware shims in stream (i), real in stream (ii))",
    "pickling emulates what a spawned child receives; a forked child's memory copy is exercised by stream (ii)",
]
ASSUMPTIONS = ["stop() is called at most once per process (C02: stop_at_most_once)",
               "no fairness theorem: liveness only as 'the worker consumes while the queue is non-empty'"]


# ----------------------------------------------------------------------------- (i) scheduler stream
def gen_family_program(rng, quick=True):
    """programs aimed at state that survives from one call to the next inside ONE process: two or three threads of the same
    process (the owner or one child), each a short run of log / complete in which complete() is as frequent as log"""
    nthreads = rng.range(2, 3)
    p = rng.choice([0, 0, 1])
    procs = [p] * nthreads
    if p != 0 or rng.chance(30):
        procs[rng.below(nthreads)] = 0 if p != 0 else 1      # one thread of another process as a by-stander
    threads = []
    for t in range(nthreads):
        n = rng.range(2, 4)
        ops = [[rng.choice(["log", "complete"])] for _ in range(n)]
        if not any(o[0] == "log" for o in ops):
            ops[0] = ["log"]
        if not any(o[0] == "complete" for o in ops):
            ops[-1] = ["complete"]
        threads.append(ops)
    kinds = {str(q): rng.choice(["pickle", "fork"]) for q in sorted(set(procs)) if q != 0}
    return {"procs": procs, "threads": threads, "kinds": kinds}


def gen_program(rng, quick=True):
    nthreads = rng.range(2, 3 if quick else 4)
    procs = [0]
    for _ in range(nthreads - 1):
        procs.append(rng.choice([0, 1, 1, 2]))
    rng.shuffle(procs)
    threads = []
    removed = set()
    for t in range(nthreads):
        ops = []
        for _ in range(rng.range(1, 4)):
            k = rng.choice(["log", "log", "log", "complete", "remove"])
            if k == "remove":
                if procs[t] in removed:
                    k = "log"
                else:
                    removed.add(procs[t])
            ops.append([k])
        threads.append(ops)
    # how each child process got its logger: "pickle" = what a spawned child receives (Handler.__getstate__),
    # "fork" = the memory copy a raw os.fork() child inherits (every attribute verbatim, owner bookkeeping included)
    kinds = {str(p): rng.choice(["pickle", "fork"]) for p in sorted(set(procs)) if p != 0}
    prog = {"procs": procs, "threads": threads, "kinds": kinds}
    # error paths of the worker and of emit (round 5): some messages are refused by the sink (`sink.write` raises),
    # some cannot be un-pickled by the worker (`queue.get()` consumes the item and raises - with ANY exception class
    # un-pickling can raise), some records cannot be pickled at all (`queue.put` raises in the producer), and
    # `queue.get()` may fail a few times without consuming anything
    if rng.chance(45):
        texts = ["t%d-%d" % (ti + 1, j) for ti, ops in enumerate(threads) for j, op in enumerate(ops) if op[0] == "log"]
        rng.shuffle(texts)
        fail, poison, putfail = [], [], []
        for m in texts:
            k = rng.below(10)
            if k < 2:
                fail.append(m)
            elif k < 4:
                poison.append(m)
            elif k < 5:
                putfail.append(m)
        prog["fail"], prog["poison"], prog["putfail"] = sorted(fail), sorted(poison), sorted(putfail)
        prog["poison_exc"] = rng.choice(sorted(POISON_EXCS))
        prog["flaky"] = rng.choice([0, 0, 1, 2])
        prog["catch"] = True if putfail else rng.chance(50)
    return prog


# exception classes a reader's un-pickling can raise: `queue.get()` runs arbitrary reconstruction code of the record's
# `extra` objects (files that vanished, sockets, truncated nested pickles, ...) - the worker must survive every one
POISON_EXCS = {"RuntimeError": RuntimeError, "OSError": OSError, "EOFError": EOFError,
               "FileNotFoundError": FileNotFoundError, "ConnectionResetError": ConnectionResetError,
               "PermissionError": PermissionError, "BrokenPipeError": BrokenPipeError, "TimeoutError": TimeoutError,
               "UnpicklingError": pickle.UnpicklingError, "AttributeError": AttributeError, "KeyError": KeyError,
               "ImportError": ImportError, "ModuleNotFoundError": ModuleNotFoundError, "TypeError": TypeError,
               "ValueError": ValueError, "UnicodeDecodeError": (lambda msg: UnicodeDecodeError("utf8", b"x", 0, 1, msg)),
               "MemoryError": MemoryError, "RecursionError": RecursionError, "StopIteration": StopIteration,
               "AssertionError": AssertionError, "LookupError": LookupError, "ArithmeticError": ArithmeticError,
               "BufferError": BufferError, "NotImplementedError": NotImplementedError}


class Run:
    def __init__(self, program, chooser):
        self.program, self.chooser = program, chooser

    def execute(self):
        prog = self.program
        with sched.QueueEnv():
            s = sched.Sched(self.chooser, max_events=30000)
            sched.PENDING_SCHED[0] = s
            logger = sched.make_logger()
            fail = set(prog.get("fail", ()))
            sched.FakeQueue.poison = frozenset(prog.get("poison", ()))
            sched.FakeQueue.poison_exc = POISON_EXCS.get(prog.get("poison_exc"), RuntimeError)
            sched.FakeQueue.putfail = frozenset(prog.get("putfail", ()))
            sched.FakeQueue.flaky[0] = int(prog.get("flaky", 0))
            snk = sched.FailingSink("s0", lambda text: text in fail) if fail else sched.TracingSink("s0")
            hid = logger.add(snk, enqueue=True, context=sched.FakeContext(start_method=prog.get("start_method", "fork")),
                             format="{message}",
                             catch=bool(prog.get("catch", False)), colorize=False)
            err = sched.TracingStderr()
            self.fork_results = []
            h0 = logger._core.handlers[hid]
            object.__getattribute__(h0, "_lock").tag = "h@0"
            loggers = {0: logger}
            blob = pickle.dumps(logger)
            for p in sorted(set(prog["procs"])):
                if p != 0:
                    if prog.get("kinds", {}).get(str(p)) == "fork":
                        child = sched.fork_copy_logger(
                            logger, p, lambda o: sched.TracingSink("s0@%d" % p) if o is snk else None)
                    else:
                        child = pickle.loads(blob)
                    object.__getattribute__(child._core, "lock").tag = "core@%d" % p
                    for h in child._core.handlers.values():
                        object.__getattribute__(h, "_lock").tag = "h@%d" % p
                    loggers[p] = child
            ops_log = []

            def body(tn, p, ops):
                lg = loggers[p]

                def run():
                    for j, op in enumerate(ops):
                        inv = len(s.trace)
                        s.log_event("invoke", "%s/%d" % (tn, j), json.dumps(op))
                        res = None
                        try:
                            if op[0] == "log":
                                lg.info("%s-%d" % (tn, j))
                            elif op[0] == "complete":
                                lg.complete()
                            elif op[0] == "fork":
                                from harness import c02
                                res = c02.emulated_fork(s, {hid: snk}, streams=[err])
                                self.fork_results.append((tn, res))
                            elif op[0] == "remove":
                                try:
                                    lg.remove(hid)
                                    res = "ok"
                                except ValueError:
                                    res = "ValueError"
                        finally:
                            s.log_event("return", "%s/%d" % (tn, j), json.dumps(res))
                            ops_log.append((tn, j, op, inv, len(s.trace) - 1, res))
                return run

            for ti, ops in enumerate(prog["threads"]):
                tn = "t%d" % (ti + 1)
                sched.PIDS[tn] = 1000 if prog["procs"][ti] == 0 else 2000 + prog["procs"][ti]
                s.spawn(tn, body(tn, prog["procs"][ti], ops))
            for w in list(s.daemons):
                sched.PIDS[w] = 1000
            sched.CUR[0] = s
            import contextlib
            try:
                with contextlib.redirect_stderr(err):
                    s.go(timeout=30.0)
            finally:
                sched.CUR[0] = None
            sched.FakeQueue.poison = frozenset()
            sched.FakeQueue.poison_exc = RuntimeError
            sched.FakeQueue.putfail = frozenset()
            sched.FakeQueue.flaky[0] = 0
            self.sched, self.sink, self.ops, self.stderr = s, snk, ops_log, err
        return self


def _hang_is_expected(run):
    """a completer in a child can wait for ever once the owner's worker is gone – outside the property"""
    s = run.sched
    if not s.deadlock or s.deadlock[0] == "timeout":
        return False
    worker_done = any(kind == "get" and val == "sentinel" for (tn, kind, obj, val) in s.trace)
    last = {}
    for (tn, kind, obj, val) in s.trace[:s.deadlock_pos]:
        last[tn] = kind
    blocked = [n for n in s.deadlock if n not in s.daemons]
    waiting = [n for n in blocked if last.get(n) == "wait?"]
    # the others queue up behind a waiter on a lock it holds (complete() keeps the core lock while waiting)
    return worker_done and bool(waiting) and all(last.get(n) in ("wait?", "acq") for n in blocked)


def _err_note(prog):
    if not any(prog.get(k) for k in ("fail", "poison", "putfail", "flaky")):
        return ""
    return (" [sink refuses %r; un-pickling raises %s for %r; put raises for %r; %d get() call(s) raise without consuming]"
            % (prog.get("fail", []), prog.get("poison_exc", "RuntimeError"), prog.get("poison", []),
               prog.get("putfail", []), prog.get("flaky", 0)))


def monitors(run):
    s, prog = run.sched, run.program
    bad = []
    tr = s.trace
    if s.deadlock and not _hang_is_expected(run):
        bad.append("deadlock: %r never finished%s" % (s.deadlock, _err_note(prog)))
        return bad
    for tn, e in s.errors:
        bad.append("internal error in %s: %s: %s" % (tn, type(e).__name__, e))
    puts, sentinel_pos, wends, wbegins = [], None, {}, []
    refused, unreadable = set(prog.get("fail", ())), set(prog.get("poison", ()))
    dealt = {}          # message -> position at which the worker was done with it (written, refused or unreadable)
    for pos, (tn, kind, obj, val) in enumerate(tr):
        if kind == "put" and val.startswith("msg:"):
            puts.append((pos, val[4:]))
        elif kind == "put" and val == "sentinel" and sentinel_pos is None:
            sentinel_pos = pos
        elif kind == "wend":
            wends[val] = pos
            dealt[val] = pos
        elif kind == "wbegin":
            wbegins.append((pos, val))
            if val in refused:
                dealt[val] = pos
        elif kind == "get" and val.startswith("poison:"):
            dealt[val[7:]] = pos
    items = run.sink.items
    # whole, exactly once
    if len(set(items)) != len(items):
        bad.append("a message was written twice: %r" % (items,))
    for it in items:
        if it not in [m for _, m in puts]:
            bad.append("sink received %r which no producer put" % (it,))
    # order = put order (hence per producer order); a message the sink refuses or the worker cannot un-pickle is the
    # only one its error costs
    before = [m for pos, m in puts if sentinel_pos is None or pos < sentinel_pos]
    due = [m for m in before if m not in refused and m not in unreadable]
    hang = _hang_is_expected(run)
    if s.finished or (not s.deadlock and not s.errors) or hang:
        if items != due[:len(items)]:
            bad.append("sink order %r is not the put order %r%s" % (items, due, _err_note(prog)))
        if len(items) != len(due):
            bad.append("lost messages: put before the sentinel %r, written %r%s" % (due, items, _err_note(prog)))
    # barrier: complete() returned => the worker is done with everything this process put before invoking it
    procs = {"t%d" % (i + 1): p for i, p in enumerate(prog["procs"])}
    for tn, j, op, inv, ret, res in run.ops:
        if op[0] == "complete":
            mine = [m for pos, m in puts if pos < inv and procs[m.split("-")[0]] == procs[tn]
                    and (sentinel_pos is None or pos < sentinel_pos)]
            removed_before = any(op2[0] == "remove" and res2 == "ok" and procs[tn2] == procs[tn] and inv2 < ret
                                 for tn2, j2, op2, inv2, ret2, res2 in run.ops)
            for m in mine:
                if m not in dealt or dealt[m] > ret:
                    if removed_before and procs[tn] != 0:
                        # known finding F20: the handler was removed in this (non-owner) process before
                        bad.append("KNOWN:C03-complete-after-child-remove complete() of %s returned before %s was "
                                   "written (the child had removed the handler locally)" % (tn, m))
                    else:
                        bad.append("complete() of %s returned before %s was written%s" % (tn, m, _err_note(prog)))
        if op[0] == "remove" and res == "ok" and procs[tn] == 0:
            for pos, m in puts:
                if sentinel_pos is not None and pos < sentinel_pos and (m not in dealt or dealt[m] > ret):
                    bad.append("owner remove() returned before %s was written%s" % (m, _err_note(prog)))
            for pos, m in wbegins:
                if pos > ret:
                    bad.append("%s written after the owner's remove() returned" % m)
            if run.sink.stops != 1:
                bad.append("owner remove(): sink.stop() ran %d times" % run.sink.stops)
    owner_removed = any(op[0] == "remove" and res == "ok" and procs[tn] == 0 for tn, j, op, inv, ret, res in run.ops)
    if not owner_removed and run.sink.stops != 0:
        bad.append("a child's remove() stopped the owner's sink (%d stops)" % run.sink.stops)
    if not owner_removed and any(kind == "get" and val == "sentinel" for (tn, kind, obj, val) in tr):
        bad.append("the owner's worker thread left its loop although the owner never removed the handler")
    if not owner_removed and len(tr) <= s.max_events:
        # the worker thread must still be in its loop while anybody can still log: an "exit" of the worker before the
        # last event of a producer (or before the point at which everybody was blocked) means it died on the way
        horizon = s.deadlock_pos if s.deadlock and s.deadlock_pos is not None else max(
            [pos for pos, (tn, kind, obj, val) in enumerate(tr) if tn not in s.daemons] or [0])
        if any(tn in s.daemons and kind == "exit" and pos < horizon for pos, (tn, kind, obj, val) in enumerate(tr)):
            bad.append("the owner's worker thread ended although the owner never removed the handler%s" % _err_note(prog))
    return bad


def acceptor_lines(run):
    s, prog = run.sched, run.program
    if s.errors or (s.deadlock and not _hang_is_expected(run)):
        return None
    out = ["reset " + " ".join(str(p) for p in prog["procs"])]
    pending = {}
    for (tn, kind, obj, val) in (s.trace[:s.deadlock_pos] if s.deadlock else s.trace):
        t = 0 if tn.startswith("w") else int(tn[1:])
        if kind == "invoke":
            op = json.loads(val)
            pending[t] = {"log": "startLog %s" % obj.split("/")[1], "complete": "startComplete",
                          "remove": "startStop"}[op[0]]
            continue
        if kind == "return":
            pending.pop(t, None)
            continue
        line = None
        if kind == "acquired" and obj.startswith("h@"):
            line = "acqL"
        elif kind == "rel" and obj.startswith("h@"):
            line = "relL"
        elif kind == "acquired" and obj.startswith("mplock"):
            line = "acqConf"
        elif kind == "rel" and obj.startswith("mplock"):
            line = "relConf"
        elif kind == "Rv" and obj.endswith("._stopped"):
            line = "rStopped %d" % (1 if val else 0)
        elif kind == "W" and obj.endswith("._stopped"):
            line = "wStopped"
        elif kind == "put":
            if val.startswith("msg:"):
                a, b = val[4:].split("-")
                line = "put msg %d %s" % (int(a[1:]), b)
            else:
                line = "put " + val
        elif kind == "putfail":
            line = "putFail"
        elif kind == "getraise":
            line = "getRaise"
        elif kind == "get" and val.startswith("poison:"):
            a, b = val[7:].split("-")
            line = "getFail msg %d %s" % (int(a[1:]), b)
        elif kind == "get":
            if val.startswith("msg:"):
                a, b = val[4:].split("-")
                line = "get msg %d %s" % (int(a[1:]), b)
            else:
                line = "get " + val
        elif kind == "joined":
            line = "join"
        elif kind == "sstop":
            line = "sinkStop"
        elif kind == "waited":
            line = "waitEvent"
        elif kind == "clear":
            line = "clearEvent"
        elif kind == "set":
            line = "setEvent"
        elif kind == "wbegin":
            line = "writeFail" if val in prog.get("fail", ()) else "write"
        if line is None:
            continue
        if t in pending:
            out.append("%d %s" % (t, pending.pop(t)))
        out.append("%d %s" % (t, line))
    out.append("sink")
    out.append("handled")
    return out


def real_handled(run):
    """the worker's log as the trace shows it: (thread, seq, outcome) in the order the worker was done with each message"""
    refused = set(run.program.get("fail", ()))
    s = run.sched
    out = []
    for (tn, kind, obj, val) in (s.trace[:s.deadlock_pos] if s.deadlock else s.trace):
        o = None
        if kind == "wend":
            o = "w"
        elif kind == "wbegin" and val in refused:
            o = "r"
        elif kind == "get" and val.startswith("poison:"):
            o, val = "u", val[7:]
        if o:
            a, b = val.split("-")
            out.append("%d:%s:%s" % (int(a[1:]), b, o))
    return ",".join(out)


def dfs(program, bound, limit, on_run):
    stack, count, seen = [[]], 0, set()
    while stack and count < limit:
        prefix = stack.pop()
        if tuple(prefix) in seen:
            continue
        seen.add(tuple(prefix))
        run = Run(program, sched.replay_chooser(prefix)).execute()
        count += 1
        on_run(run)
        pts = [(r, c, prev) for (r, c, prev) in run.sched.points if len(r) > 1]
        pre, chosen = 0, []
        for idx, (r, c, prev) in enumerate(pts):
            if idx >= len(prefix):
                for alt in r:
                    if alt != c and pre + (1 if (prev in r and alt != prev) else 0) <= bound:
                        stack.append(chosen + [alt])
            if prev in r and c != prev:
                pre += 1
            chosen.append(c)
    return count


def stream_sched(ctx):
    rng = ctx.rng.fork("sched")
    boost = 3 if getattr(ctx, "search_boost", False) else 1
    lines, meta = [], []
    nv = [0]

    def judge(r, program, how):
        bad = monitors(r)
        s = r.sched
        ctx.case((json.dumps(program), tuple(s.choices)), nontrivial=(s.preemptions >= 1 and len(program["procs"]) >= 2))
        ctx.stat("sched:" + how)
        if any(program.get(k) for k in ("fail", "poison", "putfail", "flaky")):
            ctx.stat("sched:error_paths")
            ctx.stat("sched:poison_exc:" + str(program.get("poison_exc"))) if program.get("poison") else None
        if _hang_is_expected(r):
            ctx.stat("sched:expected_hang_child_complete_after_owner_remove")
        known = [b for b in bad if b.startswith("KNOWN:")]
        bad = [b for b in bad if not b.startswith("KNOWN:")]
        for b in known[:1]:
            key, what = b[6:].split(" ", 1)
            ctx.violation(what, {"stream": "sched", "program": program, "schedule": list(s.choices)}, key=key)
        if bad and nv[0] < 5:
            nv[0] += 1
            ctx.violation(bad[0], {"stream": "sched", "program": program, "schedule": list(s.choices), "violations": bad[:5]})
        elif not bad and len(lines) < 400000:
            al = acceptor_lines(r)
            if al:
                meta.append((program, list(s.choices), len(al), r.sink.items, real_handled(r)))
                lines.extend(al)
                for l in al:
                    w = l.split(" ")
                    if len(w) > 1 and w[1] in ("getFail", "writeFail", "putFail", "getRaise"):
                        ctx.stat("sched:event:" + w[1])

    cdir = os.path.join(core.VERIF, "corpus", "C03")
    if os.path.isdir(cdir):
        for fn in sorted(os.listdir(cdir)):
            c = json.load(open(os.path.join(cdir, fn)))
            if c.get("stream", "sched") == "sched":
                judge(Run(c["program"], sched.replay_chooser(c["schedule"])).execute(), c["program"], "corpus")
    for pi in range(ctx.n(25, 60) * boost):
        prog = gen_program(rng.fork("p%d" % pi), ctx.quick)
        if pi < 2:
            ctx.sample({"stream": "sched", "program": prog})
        dfs(prog, ctx.n(2, 3), ctx.n(30, 200), lambda r, prog=prog: judge(r, prog, "dfs"))
    for pi in range(ctx.n(8, 20) * boost):
        prog = gen_family_program(rng.fork("f%d" % pi), ctx.quick)
        dfs(prog, ctx.n(2, 3), ctx.n(30, 100), lambda r, prog=prog: judge(r, prog, "dfs:same_process_family"))
    for i in range(ctx.n(300, 4000) * boost):
        r2 = rng.fork("r%d" % i)
        prog = gen_program(r2, ctx.quick)
        judge(Run(prog, sched.random_chooser(r2, r2.choice([15, 35, 60]))).execute(), prog, "random")
    for i in range(ctx.n(160, 1500) * boost):
        r2 = rng.fork("rf%d" % i)
        prog = gen_family_program(r2, ctx.quick)
        judge(Run(prog, sched.random_chooser(r2, r2.choice([15, 35, 60]))).execute(), prog, "random:same_process_family")
    if lines:
        out = core.Driver(DRIVER).run(lines)
        pos = 0
        for program, schedule, n, items, handled in meta:
            chunk = out[pos:pos + n]
            ctx.traces_validated += 1
            rej = [(i, o) for i, o in enumerate(chunk) if not o.startswith("ok") and not o.startswith("sink")
                   and not o.startswith("handled")]
            model_sink = chunk[-2][5:] if chunk[-2].startswith("sink") else "?"
            model_handled = chunk[-1][8:] if chunk[-1].startswith("handled") else "?"
            real_sink = ",".join("%d:%s" % (int(m.split("-")[0][1:]), m.split("-")[1]) for m in items)
            if rej:
                i, o = rej[0]
                ctx.broke("correspondence Queue.accepts", "event %d %r: %s\nprogram=%s schedule=%s"
                          % (i, lines[pos + i], o, json.dumps(program), json.dumps(schedule)))
                break
            if model_sink != real_sink:
                ctx.broke("correspondence Queue.sink", "model sink %s, real sink %s\nprogram=%s schedule=%s"
                          % (model_sink, real_sink, json.dumps(program), json.dumps(schedule)))
                break
            if model_handled != handled:
                ctx.broke("correspondence Queue.handled", "model's worker log %s, real %s\nprogram=%s schedule=%s"
                          % (model_handled, handled, json.dumps(program), json.dumps(schedule)))
                break
            pos += n
        ctx.stat("acceptor_events", len(lines))


# ----------------------------------------------------------------------------- (ii) real processes
def stream_mp(ctx):
    from harness import c03_child
    rng = ctx.rng.fork("mp")
    # "osfork" = children created by a raw os.fork() (multiprocessing does not know them)
    grid = [("fork", 2, 2, 15), ("fork", 3, 1, 10), ("spawn", 2, 1, 8), ("forkserver", 1, 2, 6), ("osfork", 2, 2, 10),
            ("osfork", 1, 1, 5)]
    if not ctx.quick:
        grid = [(m, n, t, k) for m in ("fork", "spawn", "forkserver", "osfork") for n in (1, 2, 3, 4)
                for t in (1, 2, 3) for k in (5, 40)]
    for gi, (method, nproc, nthr, k) in enumerate(grid):
        base = tempfile.mkdtemp(prefix="verif_c03_")
        child_remove = rng.chance(50) if gi >= 6 or method != "osfork" else gi == 4
        # round 5: in about half of the cases some records (of the owner, of the children, or of both) carry an `extra`
        # object that the worker cannot rebuild: un-pickling raises an exception of a wide pool of classes
        poison = None
        if rng.chance(50) or gi in (0, 4):
            poison = {"exc": rng.choice(sorted(c03_child.LOAD_ERRORS) + ["UnpicklingError"]),
                      "every": rng.range(2, 4), "who": rng.choice(["child", "owner", "both"])}
        default_context = method in ("fork", "osfork") and (rng.chance(50) or gi == 1)
        try:
            res = c03_child.isolated_run(method, nproc, nthr, k, os.path.join(base, "out.log"),
                                       child_remove=child_remove, repo=core.REPO, poison=poison,
                                       default_context=default_context)
        finally:
            shutil.rmtree(base, ignore_errors=True)
        ctx.case(("mp", method, nproc, nthr, k), nontrivial=(nproc >= 2))
        ctx.stat("mp:" + method)
        ctx.stat("mp:child_remove" if child_remove else "mp:child_keeps_handler")
        if poison:
            ctx.stat("mp:unloadable:" + poison["exc"])
        ctx.stat("mp:default_context" if default_context else "mp:context_given")
        if res["bad"]:
            ctx.violation(res["bad"][0], {"stream": "mp", "method": method, "nproc": nproc, "nthr": nthr, "k": k,
                                          "child_remove": child_remove, "poison": poison, "default_context": default_context,
                                          "violations": res["bad"][:5]})
            break
    ctx.sample({"stream": "mp", "grid": grid[:4]})


# ----------------------------------------------------------------------------- (iii) asyncio
def stream_asyncio(ctx):
    rng = ctx.rng.fork("aio")
    from loguru import logger as _unused  # noqa: F401  (import check)
    import loguru._logger as lg
    for ci in range(ctx.n(40, 1500)):
        r = rng.fork("c%d" % ci)
        ntasks, nmsg = r.range(1, 4), r.range(1, 4)
        delays = [[r.range(0, 3) for _ in range(nmsg)] for _ in range(ntasks)]
        written, bad = [], []

        async def sink(message, delays=delays):
            tn, j = str(message).strip().split("-")
            for _ in range(delays[int(tn[1:])][int(j)]):
                await asyncio.sleep(0)
            written.append(str(message).strip())

        logger = lg.Logger(core=lg.Core(), exception=None, depth=0, record=False, lazy=False, colors=False, raw=False,
                           capture=True, patchers=[], extra={})
        logger.add(sink, format="{message}", catch=False)

        async def task(ti):
            for j in range(nmsg):
                logger.info("t%d-%d" % (ti, j))
                if r.chance(30):
                    await asyncio.sleep(0)
            mine = ["t%d-%d" % (ti, j) for j in range(nmsg)]
            await logger.complete()
            missing = [m for m in mine if m not in written]
            if missing:
                bad.append("await complete() returned in task %d before %r were written" % (ti, missing))

        async def main():
            await asyncio.gather(*[task(i) for i in range(ntasks)])

        asyncio.run(main())
        allm = sorted("t%d-%d" % (i, j) for i in range(ntasks) for j in range(nmsg))
        if sorted(written) != allm:
            bad.append("coroutine sink wrote %r, expected %r" % (sorted(written), allm))
        ctx.case(("aio", ntasks, nmsg, tuple(map(tuple, delays))), nontrivial=(ntasks >= 2))
        ctx.stat("asyncio")
        if bad:
            ctx.violation(bad[0], {"stream": "asyncio", "ntasks": ntasks, "nmsg": nmsg, "delays": delays})
            break


def stream_two_loops(ctx):
    """coroutine sink used from two event loops (one per thread): `await logger.complete()` waits for the tasks of ITS
    loop and returns although the other loop's tasks are still pending (Queue/Async.lean)"""
    import loguru._logger as lg
    rng = ctx.rng.fork("loops")
    for ci in range(ctx.n(6, 120)):
        r = rng.fork("c%d" % ci)
        na, nb, spin = r.range(1, 4), r.range(1, 3), r.range(0, 3)
        written, bad, b_view = [], [], []
        gate, started = threading.Event(), threading.Event()

        async def sink(message, spin=spin):
            txt = str(message).strip()
            if txt.startswith("B"):
                while not gate.is_set():          # the foreign loop's tasks stay pending until the gate opens
                    await asyncio.sleep(0.001)
            else:
                for _ in range(spin):
                    await asyncio.sleep(0)
            written.append(txt)

        logger = lg.Logger(core=lg.Core(), exception=None, depth=0, record=False, lazy=False, colors=False, raw=False,
                           capture=True, patchers=[], extra={})
        logger.add(sink, format="{message}", catch=False)

        async def bmain():
            for j in range(nb):
                logger.info("B-%d" % j)
            started.set()
            await logger.complete()
            b_view.append(sorted(w for w in written if w.startswith("B")))

        loop_b = asyncio.new_event_loop()
        th = threading.Thread(target=lambda: loop_b.run_until_complete(bmain()), daemon=True)

        async def amain():
            th.start()
            while not started.is_set():
                await asyncio.sleep(0.001)
            for j in range(na):
                logger.info("A-%d" % j)
            try:
                await asyncio.wait_for(logger.complete(), 5)
            except asyncio.TimeoutError:
                bad.append("complete() awaited on one loop did not return within 5 s while %d task(s) of ANOTHER loop were "
                           "pending: it waits for a foreign loop" % nb)
            missing = [m for m in ("A-%d" % j for j in range(na)) if m not in written]
            if missing and not bad:
                bad.append("await complete() returned before %r (same loop) were written" % (missing,))
            gate.set()

        asyncio.run(amain())
        th.join(10)
        loop_b.close() if not th.is_alive() else None
        if th.is_alive():
            bad.append("the second loop's complete() did not return within 10 s after its tasks could finish")
        elif b_view and b_view[0] != sorted("B-%d" % j for j in range(nb)):
            bad.append("second loop: complete() returned with %r written, expected all %d" % (b_view[0], nb))
        ctx.case(("loops", na, nb, spin), nontrivial=True)
        ctx.stat("asyncio:two_loops")
        if bad:
            ctx.violation(bad[0], {"stream": "two_loops", "na": na, "nb": nb, "spin": spin, "violations": bad})
            break


def stream_call_await_apart(ctx):
    """coroutine sinks: `logger.complete()` is CALLED in one context and its result AWAITED in another - called in an
    executor, in a helper thread, in a coroutine of ANOTHER loop, or before the loop runs at all; loop=None and explicit
    loop= sinks.  Awaiting the object on loop L must wait for every task scheduled on L by a message logged before the
    call (Queue/Async.lean: the loop is read at AWAIT time, `async_complete_waits_for_its_loop`)"""
    import concurrent.futures
    import loguru._logger as lg
    rng = ctx.rng.fork("apart")
    hows = ["executor", "thread", "other_loop", "before_loop", "same"]
    for ci in range(ctx.n(15, 200)):
        r = rng.fork("c%d" % ci)
        how = hows[ci % len(hows)]
        explicit = r.chance(50) or how == "before_loop"
        if how == "other_loop":
            explicit = False          # the tasks must live on the loop that logs
        nmsg, naps = r.range(1, 5), r.range(1, 3)
        written, bad = [], []

        async def sink(message, naps=naps):
            for _ in range(naps):
                await asyncio.sleep(0.004)
            written.append(str(message).strip())

        logger = lg.Logger(core=lg.Core(), exception=None, depth=0, record=False, lazy=False, colors=False, raw=False,
                           capture=True, patchers=[], extra={})
        mine = ["A-%d" % i for i in range(nmsg)]

        def judge_now(where):
            missing = [m for m in mine if m not in written]
            if missing:
                bad.append("coroutine sink (%s), complete() called %s and its result awaited on the loop that runs the "
                           "tasks: the await returned before %r (logged before the call) were written"
                           % ("loop=<the loop>" if explicit else "loop=None", where, missing))

        async def main_apart():
            loop = asyncio.get_running_loop()
            logger.add(sink, format="{message}", catch=False, **({"loop": loop} if explicit else {}))
            for m in mine:
                logger.info(m)
            if how == "executor":
                completer = await loop.run_in_executor(None, logger.complete)
                where = "in an executor thread (no running loop there)"
            elif how == "thread":
                fut = loop.create_future()
                threading.Thread(target=lambda: loop.call_soon_threadsafe(fut.set_result, logger.complete()),
                                 daemon=True).start()
                completer = await fut
                where = "in a helper thread (no running loop there)"
            elif how == "other_loop":
                other = asyncio.new_event_loop()
                th = threading.Thread(target=other.run_forever, daemon=True)
                th.start()

                async def call():
                    return logger.complete()
                cf = asyncio.run_coroutine_threadsafe(call(), other)
                completer = await asyncio.wrap_future(cf)
                other.call_soon_threadsafe(other.stop)
                where = "in a coroutine of ANOTHER event loop"
            else:
                completer = logger.complete()
                where = "in the same coroutine"
            await asyncio.wait_for(completer, 10)
            judge_now(where)
            await asyncio.wait_for(logger.complete(), 10)
            logger.remove()

        def runner():
            try:
                if how == "before_loop":
                    loop = asyncio.new_event_loop()
                    try:
                        logger.add(sink, format="{message}", catch=False, loop=loop)
                        for m in mine:
                            logger.info(m)            # tasks are created on the loop, which is not running yet
                        completer = logger.complete()   # called where no loop runs

                        async def waiter():
                            await asyncio.wait_for(completer, 10)
                            judge_now("before the loop was running")
                        loop.run_until_complete(waiter())
                        logger.remove()
                    finally:
                        loop.close()
                else:
                    asyncio.run(main_apart())
            except (asyncio.TimeoutError, concurrent.futures.TimeoutError):
                bad.append("coroutine sink: awaiting the result of complete() (called: %s) did not finish within 10 s" % how)
        th = threading.Thread(target=runner, daemon=True)
        th.start()
        th.join(40)
        if th.is_alive():
            bad.append("coroutine sink: the program (complete() called: %s) did not end within 40 s" % how)
        ctx.case(("apart", how, explicit, nmsg, naps), nontrivial=(how != "same"))
        ctx.stat("asyncio:call_await_apart:" + how)
        if bad:
            ctx.violation(bad[0], {"stream": "call_await_apart", "how": how, "explicit_loop": explicit, "nmsg": nmsg,
                                   "naps": naps, "violations": bad})
            break


def stream_enq_async(ctx):
    """a handler that is BOTH enqueue=True and a coroutine sink (loop= given): the worker thread turns each queued message
    into a task of the loop; `await logger.complete()` must wait for the queue (complete_queue) and THEN for the tasks of
    everything logged before it (Queue/EnqAsync.lean: enqueued_async_complete_waits)"""
    import loguru._logger as lg
    rng = ctx.rng.fork("enqaio")
    for ci in range(ctx.n(8, 150)):
        r = rng.fork("c%d" % ci)
        nthr, nmsg, own, spin, rounds = r.range(0, 2), r.range(1, 6), r.range(1, 6), r.range(0, 3), r.range(1, 2)
        written, bad = [], []

        async def sink(message, spin=spin):
            for _ in range(spin):
                await asyncio.sleep(0)
            written.append(str(message).strip())

        async def main():
            loop = asyncio.get_running_loop()
            logger = lg.Logger(core=lg.Core(), exception=None, depth=0, record=False, lazy=False, colors=False,
                               raw=False, capture=True, patchers=[], extra={})
            hid = logger.add(sink, enqueue=True, loop=loop, format="{message}", catch=False)
            ths = [threading.Thread(target=lambda j=j: [logger.info("T%d-%d" % (j, i)) for i in range(nmsg)], daemon=True)
                   for j in range(nthr)]
            for t in ths:
                t.start()
            for rd in range(rounds):
                mine = ["M%d-%d" % (rd, i) for i in range(own)]
                for m in mine:
                    logger.info(m)
                await asyncio.wait_for(logger.complete(), 15)
                missing = [m for m in mine if m not in written]
                if missing:
                    bad.append("enqueue=True + coroutine sink: `await logger.complete()` returned before the tasks of %r "
                               "(logged before the call in the same coroutine) had run; written so far %r"
                               % (missing, list(written)))
                    break
            for t in ths:
                t.join(10)
            await asyncio.wait_for(logger.complete(), 15)
            allm = sorted(["T%d-%d" % (j, i) for j in range(nthr) for i in range(nmsg)] +
                          ["M%d-%d" % (rd, i) for rd in range(rounds) for i in range(own)])
            if not bad and sorted(written) != allm:
                bad.append("enqueue=True + coroutine sink: after the final `await logger.complete()` the sink ran for %r, "
                           "expected %r" % (sorted(written), allm))
            logger.remove(hid)

        def runner():
            try:
                asyncio.run(main())
            except asyncio.TimeoutError:
                bad.append("enqueue=True + coroutine sink: awaiting complete() did not finish within 15 s")
        th = threading.Thread(target=runner, daemon=True)
        th.start()
        th.join(40)
        if th.is_alive():
            bad.append("enqueue=True + coroutine sink: the program (log, await complete(), remove) did not end within 40 s")
        ctx.case(("enqaio", nthr, nmsg, own, spin, rounds), nontrivial=True)
        ctx.stat("asyncio:enqueued")
        if bad:
            ctx.violation(bad[0], {"stream": "enq_async", "nthr": nthr, "nmsg": nmsg, "own": own, "spin": spin,
                                   "rounds": rounds, "violations": bad})
            break


def stream_multi_handler(ctx):
    """several handlers on one logger (enqueue=True ones with slow or refusing sinks next to plain ones): complete() is a
    barrier for EVERY enqueue handler, remove(id) of one drains exactly that one and leaves the others working, a
    refusing sink costs only its own messages; real threads, real queues"""
    import time as _time
    import loguru._logger as lg
    rng = ctx.rng.fork("multi")
    for ci in range(ctx.n(8, 120)):
        r = rng.fork("c%d" % ci)
        nh = r.range(2, 4)
        kinds = [r.choice(["enq", "enq", "enq-slow", "enq-refusing", "plain"]) for _ in range(nh)]
        if not any(k.startswith("enq") for k in kinds):
            kinds[0] = "enq-slow"
        nthr, nmsg = r.range(1, 3), r.range(2, 6)
        refuse_mod = r.range(2, 3)
        sinks = [[] for _ in range(nh)]
        bad = []

        def mk(i, kind):
            def sink(m):
                text = str(m).strip()
                if kind == "enq-slow":
                    _time.sleep(0.001)
                if kind == "enq-refusing" and int(text.rsplit("-", 1)[1]) % refuse_mod == 0:
                    raise ValueError("sink %d refuses %s" % (i, text))
                sinks[i].append(text)
            return sink
        logger = lg.Logger(core=lg.Core(), exception=None, depth=0, record=False, lazy=False, colors=False, raw=False,
                           capture=True, patchers=[], extra={})
        import io
        import contextlib
        err = io.StringIO()
        ids = [logger.add(mk(i, k), enqueue=k.startswith("enq"), format="{message}", catch=True) for i, k in enumerate(kinds)]
        done = threading.Event()
        victim = r.below(nh)

        def expected(i, msgs):
            if kinds[i] == "enq-refusing":
                return [m for m in msgs if int(m.rsplit("-", 1)[1]) % refuse_mod != 0]
            return list(msgs)

        def producer(j, views):
            mine = []
            for i in range(nmsg):
                logger.info("T%d-%d" % (j, i))
                mine.append("T%d-%d" % (j, i))
            logger.complete()
            views[j] = (mine, [list(sk) for sk in sinks])

        def work():
            with contextlib.redirect_stderr(err):
                views = {}
                ths = [threading.Thread(target=producer, args=(j, views), daemon=True) for j in range(nthr)]
                for t in ths:
                    t.start()
                for t in ths:
                    t.join(20)
                for j, (mine, snap) in sorted(views.items()):
                    for i in range(nh):
                        missing = [m for m in expected(i, mine) if m not in snap[i]]
                        if missing:
                            bad.append("handlers %r: complete() of thread %d returned before handler %d (%s) had written %r"
                                       % (kinds, j, i, kinds[i], missing))
                if len(views) != nthr:
                    bad.append("handlers %r: complete() did not return within 20 s in %d thread(s)" % (kinds, nthr - len(views)))
                    done.set()
                    return
                logger.info("X-1")
                logger.remove(ids[victim])
                at_remove = list(sinks[victim])
                logger.info("Y-1")
                logger.complete()
                allm = ["T%d-%d" % (j, i) for j in range(nthr) for i in range(nmsg)]
                if sorted(at_remove) != sorted(expected(victim, allm + ["X-1"])):
                    bad.append("handlers %r: when remove(%d) returned its sink (%s) held %r, expected %r"
                               % (kinds, victim, kinds[victim], sorted(at_remove), sorted(expected(victim, allm + ["X-1"]))))
                if sinks[victim] != at_remove:
                    bad.append("handlers %r: the removed handler %d wrote %r after remove() returned"
                               % (kinds, victim, sinks[victim][len(at_remove):]))
                for i in range(nh):
                    if i != victim and sorted(sinks[i]) != sorted(expected(i, allm + ["X-1", "Y-1"])):
                        bad.append("handlers %r: after removing handler %d and a further complete(), handler %d (%s) holds "
                                   "%r, expected %r" % (kinds, victim, i, kinds[i], sorted(sinks[i]),
                                                        sorted(expected(i, allm + ["X-1", "Y-1"]))))
                    for j in range(nthr):
                        seq = [m for m in sinks[i] if m.startswith("T%d-" % j)]
                        if seq != sorted(seq, key=lambda m: int(m.rsplit("-", 1)[1])):
                            bad.append("handlers %r: handler %d wrote the messages of thread %d out of order: %r"
                                       % (kinds, i, j, seq))
                logger.remove()
            done.set()
        th = threading.Thread(target=work, daemon=True)
        th.start()
        if not done.wait(60):
            bad.append("handlers %r: the program (log from %d threads, complete, remove one, log, complete, remove all) "
                       "did not end within 60 s" % (kinds, nthr))
        ctx.case(("multi", tuple(kinds), nthr, nmsg, victim), nontrivial=True)
        for k in kinds:
            ctx.stat("multi:" + k)
        if bad:
            ctx.violation(bad[0], {"stream": "multi_handler", "kinds": kinds, "nthr": nthr, "nmsg": nmsg, "victim": victim,
                                   "refuse_mod": refuse_mod, "violations": bad[:5]})
            break


def stream_shapes(ctx):
    """message shapes the queue items could be confused with: empty text, texts equal to str(None)/str(True),
    falsy/odd payloads – every accepted message must be written, complete() and remove() must return"""
    import loguru._logger as lg
    rng = ctx.rng.fork("shapes")
    shapes = ["", "None", "True", "0", " ", "\n", "x"]
    for ci in range(ctx.n(6, 60)):
        msgs = [rng.choice(shapes) for _ in range(rng.range(2, 6))]
        if "" not in msgs:
            msgs[rng.below(len(msgs))] = ""
        got = []
        logger = lg.Logger(core=lg.Core(), exception=None, depth=0, record=False, lazy=False, colors=False, raw=False,
                           capture=True, patchers=[], extra={})
        dyn = rng.chance(50)
        if dyn:
            hid = logger.add(lambda m: got.append(str(m)), enqueue=True, format=lambda r: "{message}", catch=False)
        else:
            hid = logger.add(lambda m: got.append(str(m)), enqueue=True, format="{message}", catch=False)
        bad = []
        done = threading.Event()

        def work():
            for m in msgs:
                if dyn:
                    logger.info(m)              # dynamic format without terminator: text == message
                else:
                    logger.opt(raw=True).info(m)
            logger.complete()
            done.set()
        th = threading.Thread(target=work, daemon=True)
        th.start()
        if not done.wait(20):
            bad.append("complete() did not return within 20 s after logging %r through an enqueue handler" % (msgs,))
        elif got != msgs:
            bad.append("enqueue handler wrote %r for the logged texts %r" % (got, msgs))
        else:
            rdone = threading.Event()
            threading.Thread(target=lambda: (logger.remove(hid), rdone.set()), daemon=True).start()
            if not rdone.wait(20):
                bad.append("remove() did not return within 20 s")
        ctx.case(("shapes", tuple(msgs), dyn), nontrivial=True)
        ctx.stat("shapes")
        if bad:
            ctx.violation(bad[0], {"stream": "shapes", "messages": msgs, "dynamic_format": dyn})
            break


# ----------------------------------------------------------------------------- (v) payloads: records that carry an exception
class _Boom(Exception):
    """exception value whose pickling / unpickling fails in a configurable way"""

    def __init__(self, how, err):
        super().__init__("boom %s %s" % (how, err))
        self.how, self.err = how, err

    def __reduce__(self):
        if self.how == "dumps":
            raise _ERRS[self.err]("cannot pickle (%s)" % self.err)
        if self.how == "loads":
            return (_fail_loading, (self.err,))
        if self.how == "deep":
            x = []
            for _ in range(100000):
                x = [x]
            return (_Boom, ("ok", "-"), {"nest": x})       # RecursionError while pickling the state
        return (_Boom, (self.how, self.err))


def _fail_loading(err):
    raise _ERRS[err]("cannot unpickle (%s)" % err)


class _HarnessError(Exception):
    pass


_ERRS = {"PicklingError": pickle.PicklingError, "TypeError": TypeError, "AttributeError": AttributeError,
         "ValueError": ValueError, "RuntimeError": RuntimeError, "NotImplementedError": NotImplementedError,
         "KeyError": KeyError, "OSError": OSError, "ZeroDivisionError": ZeroDivisionError,
         "RecursionError": RecursionError, "UnpicklingError": pickle.UnpicklingError, "EOFError": EOFError,
         "custom": _HarnessError,
         # round 5: the OSError family and further Exception subclasses a reconstruction can raise
         "FileNotFoundError": FileNotFoundError, "ConnectionResetError": ConnectionResetError,
         "BrokenPipeError": BrokenPipeError, "PermissionError": PermissionError, "TimeoutError": TimeoutError,
         "ImportError": ImportError, "ModuleNotFoundError": ModuleNotFoundError, "MemoryError": MemoryError,
         "StopIteration": StopIteration, "AssertionError": AssertionError, "LookupError": LookupError,
         "BufferError": BufferError}


class _UnloadableExtra:
    """an object for `extra` that pickles fine but whose un-pickling (in the worker's `queue.get()`) raises"""

    def __init__(self, err):
        self.err = err

    def __reduce__(self):
        return (_fail_loading, (self.err,))


def _picklable(o):
    try:
        pickle.dumps(o)
        return True
    except Exception:
        return False


def _payload(rng):
    k = rng.below(10)
    if k < 2:
        return ("plain", ValueError("plain %d" % rng.below(100)))
    if k < 3:
        return ("local-attr", type("Local", (Exception,), {})("defined in a function: not importable"))
    if k < 4:
        e = RuntimeError("carries a lambda")
        e.callback = lambda: None
        return ("lambda-attr", e)
    if k < 5:
        return ("deep", _Boom("deep", "-"))
    how = "dumps" if k < 8 else "loads"
    err = rng.choice(sorted(_ERRS))
    return ("%s:%s" % (how, err), _Boom(how, err))


def _xload(rng):
    """a record the WORKER cannot rebuild: its `extra` holds an object whose un-pickling raises (any Exception class);
    `queue.get()` raises in the worker, the message is reported and skipped - and nothing else may be lost"""
    err = rng.choice(sorted(_ERRS))
    return ("xload:%s" % err, _UnloadableExtra(err))


def stream_payloads(ctx):
    """every accepted message is written exactly once and in order whatever exception value its record carries:
    the value may refuse to be pickled or unpickled with ANY Exception class (the record then arrives without it)"""
    import loguru._logger as lg
    rng = ctx.rng.fork("payloads")
    def _local():
        class Local(Exception):
            pass
        return Local("class defined in a function")

    fixed = [("local-class", _local()), ("dumps:ValueError", _Boom("dumps", "ValueError")),
             ("dumps:RuntimeError", _Boom("dumps", "RuntimeError")), ("loads:KeyError", _Boom("loads", "KeyError")),
             ("deep", _Boom("deep", "-")), ("plain", ValueError("plain")), ("none", None),
             ("xload:FileNotFoundError", _UnloadableExtra("FileNotFoundError")), ("none", None),
             ("xload:EOFError", _UnloadableExtra("EOFError")), ("xload:KeyError", _UnloadableExtra("KeyError")),
             ("plain", ValueError("after the unreadable records")), ("none", None)]
    for ci in range(ctx.n(12, 150)):
        r0 = rng.fork("c%d" % ci)
        if ci == 0:
            items = fixed            # regression case (F28 and one of every failure class) runs first
        else:
            items = [(_xload(r0) if r0.chance(25) else _payload(r0)) if r0.chance(75) else ("none", None)
                     for _ in range(r0.range(2, 7))]
        got = []
        logger = lg.Logger(core=lg.Core(), exception=None, depth=0, record=False, lazy=False, colors=False, raw=False,
                           capture=True, patchers=[], extra={})
        catch = r0.chance(50)
        fmt = r0.choice(["{message}", "{message}|{exception}"])
        import io
        import contextlib
        err = io.StringIO()
        hid = logger.add(lambda m: got.append((m.record["message"], m.record["exception"])), enqueue=True, format=fmt,
                         catch=catch, backtrace=False, diagnose=False)
        bad, raised = [], []
        done = threading.Event()

        def work():
            with contextlib.redirect_stderr(err):
                for i, (kind, exc) in enumerate(items):
                    try:
                        if exc is None:
                            logger.info("m%d" % i)
                        elif kind.startswith("xload:"):
                            logger.bind(handle=exc).info("m%d" % i)
                        else:
                            logger.opt(exception=exc).info("m%d" % i)
                    except BaseException as e:       # catch=False: a failing put reaches the caller
                        raised.append((i, kind, repr(e)))
                logger.complete()
            done.set()
        th = threading.Thread(target=work, daemon=True)
        th.start()
        desc = [k for k, _ in items]
        if not done.wait(30):
            bad.append("complete() did not return within 30 s after logging exception payloads %r" % (desc,))
        else:
            if raised:
                bad.append("logging call %d (exception payload %s) raised %s" % raised[0])
            # a record the worker cannot rebuild is reported and skipped (if it does arrive - an implementation that
            # does not pickle in-process - that is no violation): judged are all the OTHER messages, and the order of all
            xl = {"m%d" % i for i in range(len(items)) if items[i][0].startswith("xload:")}
            want = ["m%d" % i for i in range(len(items)) if "m%d" % i not in xl]
            seq = [int(m[1:]) for m, _ in got]
            if seq != sorted(set(seq)):
                bad.append("enqueue handler wrote %r: out of order or twice (payloads %r)" % ([m for m, _ in got], desc))
            got = [(m, e) for m, e in got if m not in xl]
            if [m for m, _ in got] != want:
                bad.append("enqueue handler wrote %r for the accepted messages %r (exception payloads %r)%s"
                           % ([m for m, _ in got], want, desc,
                              "; reported on stderr: " + err.getvalue().strip().splitlines()[-1][:120]
                              if err.getvalue().strip() else ""))
            else:
                for (m, rexc), (kind, exc) in zip(got, [it for it in items if not it[0].startswith("xload:")]):
                    if (exc is None) != (rexc is None):
                        bad.append("message %s: record['exception'] is %r for payload %s" % (m, rexc, kind))
                    elif exc is not None and rexc.type is not type(exc) and not (rexc.type is None and not _picklable(type(exc))):
                        bad.append("message %s: exception type %r became %r" % (m, type(exc), rexc.type))
                    elif exc is not None and kind == "plain" and repr(rexc.value) != repr(exc):
                        bad.append("message %s: picklable exception value %r arrived as %r" % (m, exc, rexc.value))
        rdone = threading.Event()
        threading.Thread(target=lambda: (logger.remove(hid), rdone.set()), daemon=True).start()
        if not rdone.wait(20) and not bad:
            bad.append("remove() did not return within 20 s")
        ctx.case(("payloads", tuple(desc), catch, fmt), nontrivial=any(k not in ("none", "plain") for k in desc))
        for k in desc:
            ctx.stat("payload:" + k.split(":")[0])
        if bad:
            ctx.violation(bad[0], {"stream": "payloads", "case": ci, "payloads": desc, "catch": catch, "format": fmt,
                                   "violations": bad[:5]})
            break


# ----------------------------------------------------------------------------- (v-b) the worker survives its own error reports
class _BrokenStderr:
    """a sys.stderr that misbehaves the way a closed pipe / full disk does"""

    def __init__(self, mode):
        self.mode = mode
        self.lines = []

    def write(self, text):
        if self.mode in ("write_oserror", "all_oserror"):
            raise OSError(32, "Broken pipe")
        self.lines.append(text)
        return len(text)

    def flush(self):
        if self.mode in ("flush_oserror", "all_oserror"):
            raise OSError(32, "Broken pipe")


def stream_worker_errors(ctx):
    """enqueue=True, catch=True, a sink that refuses some messages, and a sys.stderr that is itself broken (writes or
    flushes fail with OSError, as for a closed pipe) or absent: the report may be lost, but the worker lives on - every
    other accepted message is written and complete() returns"""
    import contextlib
    import loguru._logger as lg
    rng = ctx.rng.fork("werr")
    modes = ["ok", "write_oserror", "flush_oserror", "all_oserror", "none"]
    for ci in range(ctx.n(10, 100)):
        r0 = rng.fork("c%d" % ci)
        mode = modes[ci % len(modes)]
        n = r0.range(3, 7)
        refuse = {i for i in range(n) if r0.chance(40)} or {1}
        got, bad = [], []

        def sink(m, refuse=refuse):
            i = int(m.record["message"][1:])
            if i in refuse:
                raise ValueError("sink refuses m%d" % i)
            got.append(m.record["message"])

        logger = lg.Logger(core=lg.Core(), exception=None, depth=0, record=False, lazy=False, colors=False, raw=False,
                           capture=True, patchers=[], extra={})
        hid = logger.add(sink, enqueue=True, format="{message}", catch=True)
        err = None if mode == "none" else _BrokenStderr(mode)
        done = threading.Event()
        raised = []

        def work():
            for i in range(n):
                try:
                    logger.info("m%d" % i)
                except BaseException as e:
                    raised.append((i, repr(e)))
            logger.complete()
            done.set()
        saved = sys.stderr
        sys.stderr = err
        try:
            th = threading.Thread(target=work, daemon=True)
            th.start()
            finished = done.wait(20)
            if finished:
                rdone = threading.Event()
                threading.Thread(target=lambda: (logger.remove(hid), rdone.set()), daemon=True).start()
                if not rdone.wait(20):
                    bad.append("remove() did not return within 20 s (stderr mode %s)" % mode)
        finally:
            sys.stderr = saved
        want = ["m%d" % i for i in range(n) if i not in refuse]
        if not finished:
            bad.insert(0, "complete() did not return within 20 s: the worker died while reporting a sink error on a "
                          "sys.stderr in mode %r (messages %d, refused %r, written %r)" % (mode, n, sorted(refuse), got))
        elif raised:
            bad.append("logging call %d raised %s with catch=True" % raised[0])
        elif got != want:
            bad.append("enqueue handler wrote %r, expected %r (refused %r, stderr mode %s)" % (got, want, sorted(refuse), mode))
        ctx.case(("werr", mode, n, tuple(sorted(refuse))), nontrivial=True)
        ctx.stat("worker_errors:" + mode)
        if bad:
            ctx.violation(bad[0], {"stream": "worker_errors", "mode": mode, "n": n, "refuse": sorted(refuse),
                                   "violations": bad})
            break


# ----------------------------------------------------------------------------- (vi) the program simply ends
def stream_exit(ctx):
    """no loss at normal interpreter exit: the owner never calls remove()/complete(); the queue is drained by the
    clean-up loguru registers at import - in every start-up environment (default handler installed or not)"""
    import subprocess
    rng = ctx.rng.fork("exit")
    envs = [("default", {}, False), ("autoinit_off", {"LOGURU_AUTOINIT": "False"}, False), ("no_stderr", {}, True)]
    hows = ["return", "sys_exit", "exception"]
    cases = [(e, h) for e in envs for h in hows]
    if ctx.quick:
        cases = [cases[i] for i in (0, 4, 8, 3, 7)]
    for (ename, extra_env, close_err), how in cases:
        base = tempfile.mkdtemp(prefix="verif_c03x_")
        path = os.path.join(base, "out.log")
        nthr, k = rng.range(1, 3), rng.range(10, 40)
        env = dict(os.environ, PYTHONPATH=core.REPO + os.pathsep + core.VERIF)
        env.pop("LOGURU_AUTOINIT", None)
        env.update(extra_env)
        bad = []
        try:
            p = subprocess.run(["/venv/bin/python", "-m", "harness.c03_child", "exit",
                                json.dumps([core.REPO, path, nthr, k, how])], cwd=core.VERIF, env=env, timeout=120,
                               stdout=subprocess.PIPE, stderr=subprocess.PIPE, text=True,
                               preexec_fn=(lambda: os.close(2)) if close_err else None)
            want_rc = {"return": 0, "sys_exit": 3, "exception": 1}[how]
            if p.returncode != want_rc:
                bad.append("the program ended with status %r instead of %r: %s" % (p.returncode, want_rc, p.stderr[-300:]))
            lines = open(path, encoding="utf8").read().split("\n")[:-1] if os.path.exists(path) else []
            expected = ["T%d-%d" % (j, i) for j in range(nthr) for i in range(k)]
            if sorted(lines) != sorted(expected):
                missing = sorted(set(expected) - set(lines))
                bad.append("program ending by %s (%s): %d of %d accepted messages were never written, e.g. %r"
                           % (how, ename, len(missing), len(expected), missing[:3]) if missing else
                           "program ending by %s (%s): written lines differ from the accepted messages (%d vs %d)"
                           % (how, ename, len(lines), len(expected)))
            else:
                last = {}
                for l in lines:
                    tag, i = l.rsplit("-", 1)
                    if last.get(tag, -1) >= int(i):
                        bad.append("producer %s: %s written out of order" % (tag, l))
                        break
                    last[tag] = int(i)
        except subprocess.TimeoutExpired:
            bad.append("program ending by %s (%s) did not terminate within 120 s" % (how, ename))
        finally:
            shutil.rmtree(base, ignore_errors=True)
        ctx.case(("exit", ename, how, nthr, k), nontrivial=True)
        ctx.stat("exit:" + ename)
        if bad:
            ctx.violation(bad[0], {"stream": "exit", "env": ename, "how": how, "nthr": nthr, "k": k, "violations": bad})
            break


def run(ctx):
    for stream in (stream_shapes, stream_payloads, stream_worker_errors, stream_exit, stream_sched, stream_mp, stream_asyncio, stream_two_loops,
                   stream_enq_async, stream_multi_handler, stream_call_await_apart):
        stream(ctx)
        if ctx.violations and getattr(ctx, "search_boost", False):
            return           # enlarged search after a broken obligation: a failing input has been found


def replay(ctx, rep):
    r = rep["replay"]
    if r.get("stream") == "sched":
        run_ = Run(r["program"], sched.replay_chooser(r["schedule"])).execute()
        bad = [b for b in monitors(run_)]
        print("program:", json.dumps(r["program"]))
        for e in run_.sched.trace[-40:]:
            print("   ", e)
    elif r.get("stream") == "mp":
        from harness import c03_child
        base = tempfile.mkdtemp(prefix="verif_c03_")
        try:
            bad = c03_child.isolated_run(r["method"], r["nproc"], r["nthr"], r["k"], os.path.join(base, "o.log"),
                                       child_remove=r.get("child_remove", True), repo=core.REPO,
                                       poison=r.get("poison"), default_context=r.get("default_context", False))["bad"]
        finally:
            shutil.rmtree(base, ignore_errors=True)
    elif r.get("stream") == "exit":
        import subprocess
        base = tempfile.mkdtemp(prefix="verif_c03x_")
        path = os.path.join(base, "out.log")
        env = dict(os.environ, PYTHONPATH=core.REPO + os.pathsep + core.VERIF)
        env.pop("LOGURU_AUTOINIT", None)
        if r["env"] == "autoinit_off":
            env["LOGURU_AUTOINIT"] = "False"
        try:
            subprocess.run(["/venv/bin/python", "-m", "harness.c03_child", "exit",
                            json.dumps([core.REPO, path, r["nthr"], r["k"], r["how"]])], cwd=core.VERIF, env=env,
                           timeout=120, stdout=subprocess.PIPE, stderr=subprocess.PIPE,
                           preexec_fn=(lambda: os.close(2)) if r["env"] == "no_stderr" else None)
            lines = open(path, encoding="utf8").read().split("\n")[:-1] if os.path.exists(path) else []
            expected = ["T%d-%d" % (j, i) for j in range(r["nthr"]) for i in range(r["k"])]
            bad = [] if sorted(lines) == sorted(expected) else [
                "%d of %d accepted messages were never written" % (len(set(expected) - set(lines)), len(expected))]
        finally:
            shutil.rmtree(base, ignore_errors=True)
    else:
        # the remaining streams derive every case from the seed alone: re-run the stream of the recorded case with the
        # recorded seed and tier (and the enlarged budget if an obligation was broken) and report what it finds
        streams = {"payloads": stream_payloads, "shapes": stream_shapes, "worker_errors": stream_worker_errors,
                   "asyncio": stream_asyncio, "two_loops": stream_two_loops, "enq_async": stream_enq_async,
                   "multi_handler": stream_multi_handler, "call_await_apart": stream_call_await_apart}
        fn = streams.get(r.get("stream"))
        if fn is None:
            print("unknown stream %r: run the check with the same VERIF_SEED" % (r.get("stream"),))
            return 1
        c2 = core.Ctx(PROP, rep.get("tier", "quick"), int(rep.get("seed", 0)))
        c2.search_boost = bool(rep.get("broken_obligations"))
        fn(c2)
        bad = [v["what"] for v in c2.violations]
        print("stream %s re-run with seed %s (%s tier)" % (r.get("stream"), rep.get("seed", 0), rep.get("tier", "quick")))
    for b in bad:
        print("VIOLATED:", b)
    print("REPRODUCED" if bad else "not reproduced")
    return 1 if bad else 0
