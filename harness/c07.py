"""C07 – time-based rotation starts a new file exactly at the boundaries the spec denotes
(DESIGN §4 C07).  Also hosts the helpers shared with harness/c19.py (same Lean area `Rotation`).

Wire grammar of the Lean driver `drivers/Rotation.lean` (one case per line):
    fn   <spec> <ctime,utc,off,bytes,chars,tell>*     -> ok <bits> | err <Kind>
    sink <spec> <ctime0> <size0> <utc,off,bytes,chars>* -> ok <i,j|k|...> | err <Kind>
    size|dur|daytime <tok>, freq <tok> <t>, stepd <t>, stepw <w> <t>, civil <z>
<spec> = items joined by ';': N<floor> | D<microseconds> | T<h>,<m>,<s>,<us>,<tz µs|n> | S<hex token>
All instants are integer microseconds (UTC, or naive local where stated).
"""
import calendar
import datetime as pydt
import os
import shutil
import signal
import tempfile
import types
from fractions import Fraction

from harness import core
from harness.core import enc

PROP = "C07"
LEAN_TARGETS = ["LoguruModel.Props.C07"]
AUDIT_FILE = "LoguruModel/Audit/C07.lean"
DRIVER = "Rotation"
RULE = ("(rotation spec, creation instant, fixed record offset, non-decreasing timestamp sequence): specs are "
        "generated as a meaning (interval / daily time / weekday[-at-time] / hourly..yearly) and rendered either as the "
        "object or as one of its documented spellings; timestamps are placed relative to the oracle's own boundaries "
        "(1 µs before, exactly on, 1 µs after, inside the period, several periods later, gap 0); ~10 % malformed "
        "spellings; an adversarial stream of random strings over the parsers' alphabets is compared model vs code. "
        "non-trivial = at least one boundary is crossed and at least one call does not rotate; distinct by "
        "(spelling, creation, offset, timestamps)")
TRUSTED = [
    "Py/Calendar.lean (proleptic Gregorian arithmetic) is modelled; validated against datetime.date (sampled in "
    "quick, every day of years 1..9999 in thorough) and its month-start facts are proved inside Lean by kernel "
    "evaluation over one 400-year era",
    "the regular expressions of _string_parsers are transcribed as hand-written scanners (their text is pinned by the "
    "extractor); ASCII character classes only",
    "numbers inside spellings are exact decimals in the model the theorems are about (generators of the function-level "
    "streams keep totals at whole microseconds, below 3 years); the arithmetic Python really performs – float(value) * unit "
    "summed in binary64, then timedelta(seconds=float) – is the hand-written model Rotation.parseDurationF over "
    "Py/Float64.lean (F64.tdSeconds mirrors _datetimemodule.c), compared bit for bit with parse_duration on spellings "
    "that need rounding (sub-microsecond parts, exact half microseconds, long fractions, exponents, overflow)",
]
ASSUMPTIONS = ["fixed-offset zones (datetime.timezone) for records and aware times", "timestamps are non-decreasing",
               "get_ctime/set_ctime are patched to a supplied creation time in the function-level stream",
               "the Windows / macOS / fallback branches of load_ctime_functions are run under stand-ins of `os` "
               "(feature tests and os.stat results emulated; win32_setctime is a stub)",
               "where the creation time cannot be persisted the clock is emulated on the file system (os.utime after each record)"]

EPOCH = pydt.datetime(1970, 1, 1, tzinfo=pydt.timezone.utc)
EPOCH_N = pydt.datetime(1970, 1, 1)
US = pydt.timedelta(microseconds=1)
DAY = 86400 * 10**6
HOUR = 3600 * 10**6
WEEKDAYS = ["monday", "tuesday", "wednesday", "thursday", "friday", "saturday", "sunday"]
OFFSETS = [0, 0, HOUR, -5 * HOUR, 9 * HOUR, 19800 * 10**6, -34200 * 10**6, 14 * HOUR, -12 * HOUR, 3661 * 10**6, -3661 * 10**6,
           2 * HOUR, -8 * HOUR, 45 * 60 * 10**6, 10 * HOUR + 1]
UNIT_SPELL = {
    31536000 * 10**6: ["y", "year", "years"], 2628000 * 10**6: ["month", "months"],
    604800 * 10**6: ["w", "week", "weeks"], DAY: ["d", "day", "days"], HOUR: ["h", "hour", "hours"],
    60 * 10**6: ["min", "mins", "minute", "minutes"], 10**6: ["s", "sec", "secs", "second", "seconds"],
    1000: ["ms", "millisecond", "milliseconds"], 1: ["us", "microsecond", "microseconds"],
}


class ZoneLike(pydt.tzinfo):
    """a zone object in the style of zoneinfo / pytz / dateutil with a constant offset: it knows its offset only
    for a date (`utcoffset(None)` is None), so `datetime.time(…, tzinfo=ZoneLike(…)).utcoffset()` is None"""

    def __init__(self, off_us):
        self.off = pydt.timedelta(microseconds=off_us)

    def utcoffset(self, dt):
        return None if dt is None else self.off

    def dst(self, dt):
        return None if dt is None else pydt.timedelta(0)

    def tzname(self, dt):
        return "ZL"

    def __repr__(self):
        return "ZoneLike(%s)" % self.off


ZONEINFO_NAMES = {0: "UTC", 9 * 3600 * 10**6: "Asia/Tokyo", 19800 * 10**6: "Asia/Kolkata", -5 * 3600 * 10**6: "Etc/GMT+5",
                  3600 * 10**6: "Etc/GMT-1", 14 * 3600 * 10**6: "Etc/GMT-14", -12 * 3600 * 10**6: "Etc/GMT+12",
                  2 * 3600 * 10**6: "Etc/GMT-2", -8 * 3600 * 10**6: "Etc/GMT+8"}


def make_tzinfo(off_us, kind):
    """kind: 'f' datetime.timezone, 'z' ZoneLike, 'i' zoneinfo.ZoneInfo of a zone with that constant offset since 1970
    (falls back to ZoneLike when there is no tz database or no such zone)"""
    if kind == "i" and off_us in ZONEINFO_NAMES:
        try:
            import zoneinfo
            return zoneinfo.ZoneInfo(ZONEINFO_NAMES[off_us])
        except Exception:  # noqa – no tz database on this machine
            return ZoneLike(off_us)
    if kind in ("z", "i"):
        return ZoneLike(off_us)
    return pydt.timezone(pydt.timedelta(microseconds=off_us))


class Hang(Exception):
    pass


def _alarm(signum, frame):
    raise Hang()


class time_limit:
    """a pure-Python loop that never ends (e.g. a non-increasing catch-up step) becomes a `Hang`"""

    def __init__(self, seconds):
        self.seconds = seconds

    def __enter__(self):
        self.old = signal.signal(signal.SIGALRM, _alarm)
        signal.setitimer(signal.ITIMER_REAL, self.seconds)

    def __exit__(self, *a):
        signal.setitimer(signal.ITIMER_REAL, 0)
        signal.signal(signal.SIGALRM, self.old)
        return False


def us_of(dt):
    """UTC microseconds of an aware datetime / naive-local microseconds of a naive one"""
    return (dt - (EPOCH if dt.tzinfo is not None else EPOCH_N)) // US


def naive_of(us):
    return EPOCH_N + pydt.timedelta(microseconds=us)


def ctime_pair(c_us):
    """the float handed to loguru as creation time and the instant `fromtimestamp` makes of it"""
    ts = c_us / 1e6
    eff = us_of(pydt.datetime.fromtimestamp(ts, tz=pydt.timezone.utc))
    return ts, eff


# ----------------------------------------------------------------------------- meanings and spellings
# meaning: ("interval", us) | ("daily", (h,m,s,us), tz_us|None) | ("weekday", w, (h,m,s,us)|None) | ("freq", name)

def fmt_dec(fr):
    """a decimal literal for a Fraction with a power-of-ten denominator"""
    s = "-" if fr < 0 else ""
    fr = abs(fr)
    n, d = fr.numerator, fr.denominator
    k = 0
    while d != 1 and k < 20:
        n, d, k = n * 10, d, k + 1
        if n % d == 0:
            n, d = n // d, 1
    digits = str(n)
    if k:
        digits = digits.rjust(k + 1, "0")
        return s + digits[:-k] + "." + digits[-k:]
    return s + digits


def spell_case(rng, s):
    k = rng.below(6)
    return s.upper() if k == 0 else s.capitalize() if k == 1 else s


def gen_duration_parts(rng):
    """[(Fraction value, unit µs)], total within 3 years, every part a whole number of microseconds"""
    parts = []
    for _ in range(rng.choice([1, 1, 1, 2, 2, 3])):
        unit = rng.choice([DAY, HOUR, HOUR, 60 * 10**6, 60 * 10**6, 10**6, 10**6, 1000, 1, 604800 * 10**6,
                           2628000 * 10**6, 31536000 * 10**6])
        if unit >= 604800 * 10**6:
            v = Fraction(rng.choice([1, 2, 1, 1]))
        elif unit >= 10**6:
            v = Fraction(rng.choice([1, 1, 2, 3, 5, 10, 12, 24, 30, 45, 90, 100]))
            if rng.chance(25):
                v = v + Fraction(rng.choice([5, 25, 75, 1, 2]), rng.choice([10, 100]))
            if unit == 10**6 and rng.chance(30):      # '1.1 s', '0.7 s', '0.1 s': lengths no double holds exactly
                v = Fraction(rng.choice([1, 3, 7, 11, 13, 23, 101, 999]), rng.choice([10, 10, 100, 1000]))
        elif unit == 1000:
            v = Fraction(rng.choice([1, 5, 100, 100, 200, 250, 300, 500, 700, 1500, rng.range(1, 999)])) + \
                (Fraction(rng.range(1, 9), 10) if rng.chance(20) else 0)
        else:
            v = Fraction(rng.choice([1, 2, 10, 500, 999999, 1000000]))
        parts.append((v, unit))
    return parts


def spell_duration(rng, parts):
    out = []
    for v, unit in parts:
        num = fmt_dec(v)
        if rng.chance(8) and v.denominator == 1:
            num = rng.choice(["+" + num, num + ".", num + ".0", num + "e0", "0" + num])
        sp = spell_case(rng, rng.choice(UNIT_SPELL[unit]))
        out.append(num + rng.choice(["", " ", " ", "  "]) + sp)
    sep = rng.choice([" ", ", ", ",", "  ", " "])
    s = sep.join(out)
    # a separator is mandatory only when the next number would glue to the unit
    return rng.choice(["", " ", "\t"]) + s + rng.choice(["", " ", ","])


def spell_time(rng, hmsu):
    h, m, s, us = hmsu
    forms = []
    if us:
        f = ("%06d" % us).rstrip("0")
        forms.append("%02d:%02d:%02d.%s" % (h, m, s, f))
        forms.append("%d:%02d:%02d.%06d" % (h, m, s, us))
    elif s:
        forms += ["%02d:%02d:%02d" % (h, m, s), "%d:%d:%d" % (h, m, s)]
    elif m:
        forms += ["%02d:%02d" % (h, m), "%d:%02d" % (h, m), "%02d:%02d:00" % (h, m)]
    else:
        forms += ["%02d:00" % h, "%d" % h, "%02d" % h, "%d:00:00" % h, "%02d:00:00.0" % h]
    return rng.choice(forms)


def render(rng, meaning):
    """-> (python object handed to loguru, wire token, kind of rendering)"""
    k = meaning[0]
    if k == "interval":
        us = meaning[1]
        return pydt.timedelta(microseconds=us), "D%d" % us, "object"
    if k == "duration":   # interval given by parts
        s = spell_duration(rng, meaning[1])
        return s, "S" + enc(s), "spelling"
    if k == "daily":
        hmsu, tz = meaning[1], meaning[2]
        if tz is not None or rng.chance(40):
            kind = rng.choice(["f", "f", "z", "i"])
            tzinfo = None if tz is None else make_tzinfo(tz, kind)
            tok = "T%d,%d,%d,%d,%s" % (hmsu + ("n" if tz is None else str(tz),))
            return pydt.time(*hmsu, tzinfo=tzinfo), tok + ("" if tz is None else "," + kind), "object"
        s = rng.choice(["", " "]) + spell_time(rng, hmsu) + rng.choice(["", " "])
        return s, "S" + enc(s), "spelling"
    if k == "weekday":
        w, hmsu = meaning[1], meaning[2]
        day = spell_case(rng, rng.choice([WEEKDAYS[w], WEEKDAYS[w], "w%d" % w]))
        if hmsu is None:
            s = day
        else:
            s = day + rng.choice([" at ", " at ", "  AT ", " At  ", "\tat "]) + spell_time(rng, hmsu)
        s = rng.choice(["", " "]) + s
        return s, "S" + enc(s), "spelling"
    if k == "freq":
        s = rng.choice(["", " "]) + spell_case(rng, meaning[1]) + rng.choice(["", " "])
        return s, "S" + enc(s), "spelling"
    raise AssertionError(meaning)


def interval_of(meaning):
    if meaning[0] == "interval":
        return meaning[1]
    tot = sum((v * u for v, u in meaning[1]), Fraction(0))
    assert tot.denominator == 1, "generator must keep durations at whole microseconds"
    return int(tot)


def gen_tod(rng):
    h = rng.choice([0, 0, 1, 11, 12, 13, 23, rng.range(0, 23)])
    m = rng.choice([0, 0, 30, 59, rng.range(0, 59)])
    s = rng.choice([0, 0, 0, 59, rng.range(0, 59)]) if m or rng.chance(30) else 0
    us = rng.choice([0, 0, 0, 500000, 1, 999999, 120000]) if s or rng.chance(10) else 0
    return (h, m, s, us)


def gen_meaning(rng):
    k = rng.below(100)
    if k < 12:
        us = rng.choice([HOUR, DAY, 90 * 60 * 10**6, 10**6, 7 * DAY, 1500, 36 * HOUR, rng.range(1, 10**7) * 1000,
                         100000, 200000, 300000, 700000, 1100000, 2300000, 10000, 1000, 333, 7, 60100000,
                         rng.range(1, 5000) * 100, rng.range(1, 10**6)])
        return ("interval", us)
    if k < 30:
        return ("duration", gen_duration_parts(rng))
    if k < 50:
        tz = rng.choice(OFFSETS) if rng.chance(35) else None
        return ("daily", gen_tod(rng), tz)
    if k < 80:
        return ("weekday", rng.range(0, 6), gen_tod(rng) if rng.chance(75) else None)
    return ("freq", rng.choice(["hourly", "daily", "weekly", "monthly", "yearly"]))


MALFORMED = ["", " ", "foo", "1 parsec", "w7", "w10", "w-1", "25:00", "12:60", "monday at", "at 12", "monday at noon",
             "funday at 12:00", "1 h 30", "1.2.3 h", "e5 s", "K", "daily at 12", "12:00 at monday", "w3 at", "1e",
             "10:30 pm", "11 PM", "--1 h", "1 h, 2", "hourlyy", "month", "13h30", "w", "monday 12:00", "1:2:3:4",
             "0 h", "-1 h", "0.0000001 s", "1 h -2 h", "0 d 0 s", "-5 min", "24:00", "1..5 MB", "1eb", "sunday at 25"]


# ----------------------------------------------------------------------------- the executable spec (oracle)
def month_start(y, m):
    return pydt.datetime(y, m, 1)


def next_boundary(sem, tau, c):
    """least boundary of B(sem, c) strictly after the naive local datetime `tau` (c = creation, local)"""
    k = sem[0]
    if k == "interval":
        d = pydt.timedelta(microseconds=sem[1])
        n = (tau - c) // d + 1
        return c + n * d
    if k == "daily":
        cand = pydt.datetime.combine(tau.date(), pydt.time(*sem[1]))
        return cand if cand > tau else cand + pydt.timedelta(days=1)
    if k == "weekday":
        t = pydt.time(*(sem[2] or (0, 0, 0, 0)))
        ahead = (sem[1] - tau.weekday()) % 7
        cand = pydt.datetime.combine(tau.date() + pydt.timedelta(days=ahead), t)
        return cand if cand > tau else cand + pydt.timedelta(days=7)
    name = sem[1]
    if name == "hourly":
        return tau.replace(minute=0, second=0, microsecond=0) + pydt.timedelta(hours=1)
    if name == "daily":
        return pydt.datetime.combine(tau.date() + pydt.timedelta(days=1), pydt.time())
    if name == "weekly":
        return pydt.datetime.combine(tau.date() + pydt.timedelta(days=7 - tau.weekday()), pydt.time())
    if name == "monthly":
        return month_start(tau.year + tau.month // 12, tau.month % 12 + 1)
    if name == "yearly":
        return month_start(tau.year + 1, 1)
    raise AssertionError(sem)


def normal(meaning):
    """the meaning with a 'duration' resolved to its interval"""
    if meaning[0] == "duration":
        return ("interval", interval_of(meaning))
    return meaning


def frame_offset(sem, rec_off):
    return sem[2] if sem[0] == "daily" and sem[2] is not None else rec_off


def oracle_bits(sem, c_us, rec_off, utcs):
    """expected Booleans for one time condition whose state starts fresh, and the limit trail"""
    g = frame_offset(sem, rec_off)
    c = naive_of(c_us + g)
    limit = next_boundary(sem, c, c)
    out = []
    for u in utcs:
        key = naive_of(u + g)
        if key >= limit:
            out.append(True)
            limit = next_boundary(sem, key, c)
        else:
            out.append(False)
    return out


def oracle_history(sem, c_us, rec_off, ops):
    """expected Booleans for a sink history: ops = UTC instants, None = the sink is removed and added again.
    A file created by a rotation is created at the instant of the rotating record; after a restart the boundaries
    are counted from the creation instant of the file then in use."""
    g = frame_offset(sem, rec_off)
    creation = c_us
    limit = anchor = None
    out = []
    for u in ops:
        if u is None:
            limit = None
            continue
        if limit is None:
            anchor = naive_of(creation + g)
            limit = next_boundary(sem, anchor, anchor)
        key = naive_of(u + g)
        if key >= limit:
            out.append(True)
            limit = next_boundary(sem, key, anchor)
            creation = u
        else:
            out.append(False)
    return out


def period_hint(sem):
    k = sem[0]
    if k == "interval":
        return sem[1]
    if k == "daily":
        return DAY
    if k == "weekday":
        return 7 * DAY
    return {"hourly": HOUR, "daily": DAY, "weekly": 7 * DAY, "monthly": 30 * DAY, "yearly": 365 * DAY}[sem[1]]


def gen_creation(rng):
    mode = rng.below(10)
    if mode < 2:     # month / year ends
        y = rng.choice([1999, 2000, 2019, 2020, 2023, 2024, 2100, 2037])
        mo = rng.choice([1, 2, 2, 12, 12, 3, 4])
        d = calendar.monthrange(y, mo)[1] - rng.choice([0, 0, 1])
        base = pydt.datetime(y, mo, d, rng.choice([0, 12, 23]), rng.choice([0, 59]), rng.choice([0, 59]),
                             rng.choice([0, 999999]))
    else:
        day = pydt.date(2017, 6, 12) + pydt.timedelta(days=rng.range(0, 20000) if mode < 8 else rng.range(-17000, 30000))
        base = pydt.datetime.combine(day, pydt.time(*gen_tod(rng)))
    return us_of(base)


def gen_stamps(rng, sem, c_us, rec_off, n):
    """non-decreasing UTC instants placed around the oracle's own boundaries"""
    g = frame_offset(sem, rec_off)
    c = naive_of(c_us + g)
    per = period_hint(sem)
    cap = max(per, 1) * 4000     # keep the catch-up loop short for tiny intervals
    tau = c
    out = []
    on_far_boundary = False
    for _ in range(n):
        b = next_boundary(sem, tau, c)
        k = rng.below(14)
        if on_far_boundary and rng.chance(70):
            k = rng.choice([1, 6, 7, 2])     # … followed by a record inside the period that has just begun
        on_far_boundary = False
        if k >= 12:
            # EXACTLY on a boundary several periods ahead (the limit must then move past it by one whole period,
            # however the number of elapsed periods is computed)
            t = b
            for _ in range(rng.choice([1, 2, 3, 3, 4, 5, 6, 7, 9, 10, 12, 20, 50])):
                t = next_boundary(sem, t, c)
            if (t - b) // US > cap:
                t = b
            on_far_boundary = True
        elif k == 0:
            t = tau
        elif k == 1:
            t = tau + US
        elif k == 2:
            t = b - US
        elif k <= 4:
            t = b
        elif k == 5:
            t = b + US
        elif k <= 7:
            t = tau + pydt.timedelta(microseconds=rng.range(0, max((b - tau) // US, 1)))
        elif k <= 9:
            t = b + pydt.timedelta(microseconds=rng.range(0, per))
        else:
            t = b + pydt.timedelta(microseconds=min(rng.range(1, 4) * per + rng.range(0, per), cap))
        if t < tau:
            t = tau
        tau = t
        out.append(us_of(t) - g)
    return out


# ----------------------------------------------------------------------------- running the implementation
class StubFile:
    """what `rotation(message, file)` touches"""
    encoding = "utf8"
    errors = "strict"

    def __init__(self, name):
        self.name = name
        self.size = 0

    def seek(self, *a):
        return self.size

    def tell(self):
        return self.size


class patched_ctime:
    def __init__(self, getter, setter=None):
        self.getter, self.setter = getter, setter or (lambda path, ts: None)

    def __enter__(self):
        import loguru._file_sink as fs
        self.fs = fs
        self.old = (fs.get_ctime, fs.set_ctime)
        fs.get_ctime, fs.set_ctime = self.getter, self.setter

    def __exit__(self, *a):
        self.fs.get_ctime, self.fs.set_ctime = self.old
        return False


def make_message(text, utc_us, off_us):
    from loguru._datetime import datetime as ldt
    from loguru._handler import Message
    tz = pydt.timezone(pydt.timedelta(microseconds=off_us))
    t = ldt(1970, 1, 1, tzinfo=pydt.timezone.utc) + pydt.timedelta(microseconds=utc_us)
    m = Message(text)
    m.record = {"time": t.astimezone(tz)}
    return m


def canon_err(e):
    k = core.err_kind(e)
    return "Other" if k.startswith("Other") else k


def impl_make(obj):
    from loguru._file_sink import FileSink
    try:
        return ("ok", FileSink._make_rotation_function(obj))
    except Exception as e:  # noqa
        return ("err", canon_err(e))


HANGS = {"n": 0}


def impl_fn(obj, calls, limit_s=5):
    """calls: [(ctime_float, utc_us, off_us, text, tell)]
    -> ("ok", bits) | ("err", kind at construction) | ("raised", kind, i) | ("hang", i)"""
    made = impl_make(obj)
    if made[0] == "err":
        return made
    fn = made[1]
    f = StubFile("/nonexistent/verif-c07.log")
    cur = {"ct": 0.0}
    bits = []
    with patched_ctime(lambda path: cur["ct"]):
        try:
            with time_limit(limit_s):
                for ct, utc, off, text, tell in calls:
                    cur["ct"] = ct
                    f.size = tell
                    bits.append(bool(fn(make_message(text, utc, off), f)))
        except Hang:
            HANGS["n"] += 1
            return ("hang", len(bits))
        except Exception as e:  # noqa – a logging call that raises is an observation, not an infrastructure error
            return ("raised", canon_err(e), len(bits))
    return ("ok", "".join("1" if b else "0" for b in bits))


def fn_line(token, calls_eff):
    return "fn %s %s" % (token, " ".join("%d,%d,%d,%d,%d,%d" % c for c in calls_eff)) if calls_eff else "fn %s" % token


def parse_out(o):
    p = o.split(" ")
    if p[0] == "ok":
        return ("ok", p[1] if len(p) > 1 else "")
    if p[0] == "err":
        return ("err", p[1])
    return ("bad", o)


class FrozenClock:
    """shim for the module attribute `loguru._file_sink.datetime`: `datetime.datetime.now()` is frozen"""

    def __init__(self):
        self.now_us = 0
        clock = self

        class FakeDT(pydt.datetime):
            @classmethod
            def now(cls, tz=None):
                base = EPOCH + pydt.timedelta(microseconds=clock.now_us)
                if tz is None:
                    # the sink only uses now().timestamp(): a naive value is read back in the local zone
                    return pydt.datetime.fromtimestamp(clock.now_us / 1e6)
                return base.astimezone(tz)

        self.module = types.SimpleNamespace(datetime=FakeDT, timedelta=pydt.timedelta, timezone=pydt.timezone,
                                            time=pydt.time, date=pydt.date)


XATTR = b"user.loguru_crtime"


def xattr_supported():
    """can this machine's scratch directory hold user.* extended attributes?"""
    if "v" not in xattr_supported.__dict__:
        d = tempfile.mkdtemp(prefix="verif-xattr-")
        try:
            p = os.path.join(d, "probe")
            open(p, "w").close()
            try:
                os.setxattr(p, b"user.verif_probe", b"1")
                xattr_supported.v = os.getxattr(p, b"user.verif_probe") == b"1"
            except (OSError, AttributeError):
                xattr_supported.v = False
        finally:
            shutil.rmtree(d, ignore_errors=True)
    return xattr_supported.v


def age_file(path, aging):
    """give an existing file a history: aging = {"mtime_us", "atime_us", "xattr_us" | None, "touch"}.
    The modification time is planted with os.utime (as cp -p / rsync -t / tar x do), the persisted creation
    time – if any – through the attribute loguru itself writes, and afterwards the inode is touched once more
    (chmod or mv), which moves st_ctime but neither of the two."""
    tmp = path + ".incoming"
    os.rename(path, tmp)
    if aging.get("xattr_us") is not None:
        os.setxattr(tmp, XATTR, str(aging["xattr_us"] / 1e6).encode("ascii"))
    os.utime(tmp, ns=(aging["atime_us"] * 1000, aging["mtime_us"] * 1000))
    if aging.get("touch") == "chmod":
        os.chmod(tmp, 0o640)
    os.rename(tmp, path)      # mv keeps mtime and attributes


def expected_creation(path, aging):
    """the creation instant the property names for this file (µs): the persisted one, else its mtime"""
    if aging.get("xattr_us") is not None:
        return ctime_pair(aging["xattr_us"])[1]
    return us_of(pydt.datetime.fromtimestamp(os.stat(path).st_mtime, tz=pydt.timezone.utc))


class _no_patch:
    def __enter__(self):
        return self

    def __exit__(self, *a):
        return False


def impl_sink(obj, ctime0_ts, pre_bytes, msgs, encoding="utf8", limit_s=5, aging=None):
    """real FileSink in a scratch directory.  msgs: [(utc_us, off_us, text)].  The clock is frozen at each
    message's instant.  Without `aging` creation times live in a dict (get_ctime/set_ctime patched); with
    `aging` the pre-existing file is aged on the real file system and loguru's own get_ctime/set_ctime run.
    -> ("ok", [(name, content)]) | ("err", kind) | ("hang", i) | ("raised", kind, i)"""
    import loguru._file_sink as fs
    d = tempfile.mkdtemp(prefix="verif-rot-")
    ctimes = {}
    clock = FrozenClock()
    old_dt = fs.datetime
    try:
        path = os.path.join(d, "app.log")
        if pre_bytes is not None:
            with open(path, "wb") as fh:
                fh.write(pre_bytes)
        if aging is not None:
            age_file(path, aging)
            aging["expected_us"] = expected_creation(path, aging)
        with (_no_patch() if aging is not None else patched_ctime(lambda p: ctimes.get(p, ctime0_ts), ctimes.__setitem__)):
            fs.datetime = clock.module
            try:
                try:
                    sink = fs.FileSink(path, rotation=obj, encoding=encoding)
                except Exception as e:  # noqa
                    return ("err", canon_err(e))
                i = 0
                try:
                    with time_limit(limit_s):
                        for i, item in enumerate(msgs):
                            if item is None:      # logger.remove() + logger.add() of the same sink
                                sink.stop()
                                sink = fs.FileSink(path, rotation=obj, encoding=encoding)
                                continue
                            utc, off, text = item
                            clock.now_us = utc
                            sink.write(make_message(text, utc, off))
                except Hang:
                    HANGS["n"] += 1
                    return ("hang", i)
                except Exception as e:  # noqa
                    return ("raised", canon_err(e), i)
                finally:
                    try:
                        sink.stop()
                    except Exception:  # noqa
                        pass
            finally:
                fs.datetime = old_dt
        files = []
        for name in os.listdir(d):
            with open(os.path.join(d, name), "rb") as fh:
                files.append((name, fh.read()))
        return ("ok", files)
    finally:
        shutil.rmtree(d, ignore_errors=True)


def partition_of(files, texts, encoding, pre_bytes):
    """map every file's content back to message indices (messages are made unique by a sequence tag);
    returns (sorted list of index lists, {first index: size})"""
    out = []
    for name, data in files:
        body = data
        first = False
        if pre_bytes and data.startswith(pre_bytes):
            body = data[len(pre_bytes):]
            first = True
        idx = []
        pos = 0
        while pos < len(body):
            hit = None
            for i, t in enumerate(texts):
                b = t.encode(encoding)
                if i not in idx and body.startswith(b, pos) and (hit is None or len(b) > len(texts[hit].encode(encoding))):
                    if not idx or i == idx[-1] + 1:
                        hit = i
            if hit is None:
                return None
            idx.append(hit)
            pos += len(texts[hit].encode(encoding))
        out.append((idx, len(data), first))
    out.sort(key=lambda e: (e[0][0] if e[0] else -1, not e[2]))
    return out


# ----------------------------------------------------------------------------- corpus
def load_corpus(prop):
    import json
    d = os.path.join(core.VERIF, "corpus", prop)
    out = []
    if os.path.isdir(d):
        for name in sorted(os.listdir(d)):
            if name.endswith(".json"):
                with open(os.path.join(d, name)) as fh:
                    out.append((name, json.load(fh)))
    return out


def run_fn_case(ctx, drv_lines, cases, case):
    """evaluate one function-level case on the implementation + oracle; queue its line for the model"""
    obj, token = case["obj"], case["token"]
    calls = case["calls"]          # (ctime_ts, ctime_eff, utc, off, text, tell)
    got = impl_fn(obj, [(c[0], c[2], c[3], c[4], c[5]) for c in calls])
    exp = case.get("expected")
    rep = {"stream": "fn", "token": token, "calls": [[c[1], c[2], c[3], c[4], c[5]] for c in calls],
           "spelling": obj if isinstance(obj, str) else repr(obj), "expected": exp}
    if got[0] == "hang":
        ctx.violation("rotation %r: call %d never returns (catch-up loop does not terminate)" % (rep["spelling"], got[1]),
                      dict(rep, observed=list(got)), key=case.get("key"))
        return
    if got[0] == "raised":
        ctx.violation("rotation %r: call %d raises %s" % (rep["spelling"], got[2], got[1]),
                      dict(rep, observed=list(got)), key=case.get("key"))
        return
    if exp is not None and got != exp:
        ctx.violation("rotation %r, creation %s, offset %s: expected %s, observed %s"
                      % (rep["spelling"], calls[0][1] if calls else None, calls[0][3] if calls else None, exp, got),
                      dict(rep, observed=list(got)), key=case.get("key"))
    eff = [(c[1], c[2], c[3], len(c[4].encode("utf8")), len(c[4]), c[5]) for c in calls]
    drv_lines.append(fn_line(token, eff))
    cases.append((rep, got))


def object_of_token(token):
    """rebuild the python rotation object from a wire token (replays, corpus)"""
    items = []
    for tok in token.split(";"):
        k, body = tok[0], tok[1:]
        if k == "N":
            items.append(int(body))
        elif k == "D":
            items.append(pydt.timedelta(microseconds=int(body)))
        elif k == "S":
            items.append(core.dec(body))
        elif k == "T":
            h, m, s, us, tz = body.split(",")[:5]
            kind = (body.split(",") + ["f"])[5]
            tzinfo = None if tz == "n" else make_tzinfo(int(tz), kind)
            items.append(pydt.time(int(h), int(m), int(s), int(us), tzinfo=tzinfo))
    return items[0] if len(items) == 1 else items


def run(ctx):
    rng = ctx.rng
    drv = core.Driver(DRIVER)
    boost = 4 if getattr(ctx, "search_boost", False) else 1
    lines, cases = [], []

    # ---- stream 0: corpus (regressions of F3 / F8 and minimised past cases), always first
    for name, c in load_corpus("C07"):
        sem = tuple(tuple(x) if isinstance(x, list) else x for x in c["meaning"]) if c.get("meaning") else None
        obj = object_of_token(c["token"])
        calls = []
        for ct, utc, off, tell in c.get("calls", []):
            ts, eff = ctime_pair(ct)
            calls.append((ts, eff, utc, off, "m", tell))
        if c.get("expect") == "reject":
            exp = ("err", c.get("error", "ValueError"))
        elif sem is not None:
            bits = oracle_bits(sem, calls[0][1], calls[0][3], [x[2] for x in calls])
            exp = ("ok", "".join("1" if b else "0" for b in bits))
            if c.get("bits") is not None and c["bits"] != exp[1]:
                raise RuntimeError("corpus %s: stored bits %s differ from the oracle's %s" % (name, c["bits"], exp[1]))
        else:
            exp = ("ok", c["bits"])
        ctx.case(("corpus", name), nontrivial=True)
        ctx.stat("corpus")
        run_fn_case(ctx, lines, cases, {"obj": obj, "token": c["token"], "calls": calls, "expected": exp,
                                        "key": c.get("key")})

    # ---- stream 1: structured function-level cases judged by the executable spec
    n1 = ctx.n(15000, 200000) * boost
    for i in range(n1):
        if HANGS["n"] >= 4:
            ctx.note("function-level stream stopped early: the implementation hung %d times" % HANGS["n"])
            break
        meaning = gen_meaning(rng)
        sem = normal(meaning)
        obj, token, how = render(rng, meaning)
        off = rng.choice(OFFSETS) if rng.chance(85) else rng.range(-12 * 3600, 14 * 3600) * 10**6
        c_us = gen_creation(rng) - off
        ts, eff = ctime_pair(c_us)
        stamps = gen_stamps(rng, sem, eff, off, rng.range(1, 9))
        bits = oracle_bits(sem, eff, off, stamps)
        calls = [(ts, eff, u, off, "m", 0) for u in stamps]
        exp = ("ok", "".join("1" if b else "0" for b in bits))
        ctx.case((token, eff, off, tuple(stamps)), nontrivial=(any(bits) and not all(bits)))
        ctx.stat("fn:" + sem[0] + (":" + sem[1] if sem[0] == "freq" else ""))
        ctx.stat("rendered_as_" + how)
        if sem[0] == "daily" and sem[2] is not None:
            ctx.stat("aware_time")
            ctx.stat("aware_time_tzinfo:" + type(obj.tzinfo).__name__)
        ctx.stat("rotations", sum(bits))
        if rng.chance(6):
            obj = rng.choice([[obj], (obj,), {obj}, [[obj]]])     # a container of one condition is that condition
            ctx.stat("in_container")
        if i < 4:
            ctx.sample({"stream": "fn", "spelling": obj if isinstance(obj, str) else repr(obj), "creation_us": eff,
                        "offset_us": off, "stamps": stamps, "expected": exp[1]})
        run_fn_case(ctx, lines, cases, {"obj": obj, "token": token, "calls": calls, "expected": exp})

    # ---- stream 2: malformed spellings must be rejected when the sink is added
    for s in MALFORMED:
        for variant in (s, " " + s, s.upper()):
            ctx.case(("malformed", variant), nontrivial=True)
            ctx.stat("malformed")
            got = impl_make(variant)
            token = "S" + enc(variant)
            rep = {"stream": "fn", "token": token, "calls": [], "spelling": variant, "expected": ["err", "any"]}
            if got[0] != "err":
                ctx.violation("unparsable rotation %r is accepted by _make_rotation_function" % variant, rep)
            lines.append("fn " + token)
            cases.append((rep, got))

    # ---- stream 3: adversarial strings, implementation vs model (accept/reject, then one trace)
    alpha = ["1", "2", "0", "5", ".", ":", " ", " ", "e", "-", "+", ",", "h", "d", "s", "m", "w", "at", " at ", "monday",
             "sunday", "w3", "am", "pm", "b", "k", "K", "i", "B", "M", "G", "min", "ms", "us", "y", "E", "12:00", "daily",
             "weekly", "\t", "T", "hour", "week", "1.5", "00", "days"]
    n3 = ctx.n(6000, 60000) * boost
    for i in range(n3):
        if HANGS["n"] >= 6:
            break
        s = "".join(rng.choice(alpha) for _ in range(rng.range(1, 6)))
        token = "S" + enc(s)
        off = rng.choice(OFFSETS)
        c_us = gen_creation(rng) - off
        ts, eff = ctime_pair(c_us)
        made = impl_make(s)
        ctx.stat("adversarial:" + ("accepted" if made[0] == "ok" else made[1]))
        calls = []
        if made[0] == "ok" and "Rotation.rotation_size" not in repr(made[1]):
            gaps = [rng.choice([0, 1, HOUR - 1, HOUR, DAY, 3 * DAY, 40 * DAY, rng.range(0, 2 * DAY)]) for _ in range(4)]
            # tiny intervals: keep the catch-up loop short
            step = getattr(getattr(made[1], "_step_forward", None), "keywords", {}).get("interval")
            if step is not None:
                cap = max(step // US, 1) * 3000
                gaps = [min(g, cap) for g in gaps]
            t, st = eff, []
            for g in gaps:
                t += g
                st.append(t)
            calls = [(ts, eff, u, off, "m", 0) for u in st]
        ctx.case((s, eff, off), nontrivial=(made[0] == "ok" and len(s) > 2))
        run_fn_case(ctx, lines, cases, {"obj": s, "token": token, "calls": calls, "expected": None})

    # ---- stream 4: parsers and step kernels, value level (model vs the real functions)
    from loguru import _string_parsers as sp
    from loguru._file_sink import Rotation
    plines, pexp = [], []
    for i in range(ctx.n(1500, 60000)):
        parts = gen_duration_parts(rng)
        s = spell_duration(rng, parts)
        try:
            r = sp.parse_duration(s)
            e = "none" if r is None else "ok %d" % (r // US)
        except Exception as ex:  # noqa
            e = "err " + canon_err(ex)
        tot = sum((v * u for v, u in parts), Fraction(0))
        ctx.case(("dur", s))
        ctx.stat("parse_duration")
        if e != "ok %d" % tot:
            ctx.violation("parse_duration(%r) = %s, the spelling denotes %s µs" % (s, e, tot),
                          {"stream": "dur", "text": s, "expected": "ok %d" % tot})
        plines.append("dur " + enc(s))
        pexp.append((e, "parse_duration(%r)" % s))
        # the same spelling through the binary64 reading (float(value) * unit summed in doubles, timedelta(seconds=float))
        plines.append("durf " + enc(s))
        pexp.append((e, "parse_duration(%r) [binary64 model]" % s))
    # spellings whose value needs rounding: sub-microsecond parts, exact half microseconds, long fractions, exponents –
    # no oracle of their own (either neighbour is a defensible reading); the binary64 model must reproduce Python exactly
    fr = rng.fork("durf")
    funits = ["y", "month", "w", "d", "h", "min", "s", "ms", "us", "seconds", "milliseconds", "microseconds", "hours"]
    for i in range(ctx.n(1200, 40000)):
        parts = []
        for _ in range(fr.choice([1, 1, 2, 3])):
            k = fr.below(20)
            if k < 5:
                v = str(fr.range(0, 5000))
            elif k < 11:
                v = "%d.%s" % (fr.range(0, 5000), "".join(fr.choice("0123456789") for _ in range(fr.range(1, 12))))
            elif k < 14:
                v = "%d.%de%s%d" % (fr.range(0, 99), fr.range(0, 10**6), fr.choice(["", "-", "+"]), fr.range(0, 12))
            elif k < 18:
                v = "0.%s5" % ("0" * fr.range(0, 7) + str(fr.range(0, 999)))
            else:
                v = fr.choice(["-", "+"]) + "%d.%d" % (fr.range(0, 100), fr.range(0, 99))
            parts.append(v + fr.choice(["", " "]) + fr.choice(funits))
        s = " ".join(parts) if fr.chance(85) else fr.choice(
            ["1.5 us", "2.5 us", "0.5 us", "1.0000005 s", "2.0000005 s", "3.0000015 s", "0.0000005 s", "0.1 s 0.2 s",
             "1e16 s", "1e400 s", "1e400 s -1e400 s", "-1.5 us", "0.3 ms", "0.57 min", "999999999 d", "1000000000 d"])
        try:
            r = sp.parse_duration(s)
            e = "none" if r is None else "ok %d" % (r // US)
        except Exception as ex:  # noqa
            e = "err " + canon_err(ex)
        ctx.case(("durf", s))
        ctx.stat("parse_duration_binary64")
        plines.append("durf " + enc(s))
        pexp.append((e, "parse_duration(%r) [binary64 model]" % s))
    for i in range(ctx.n(1500, 60000)):
        t = gen_creation(rng) + rng.choice([0, 0, 1, -1])
        which = rng.below(7)
        nt = naive_of(t)
        if which < 5:
            name = ["hourly", "daily", "weekly", "monthly", "yearly"][which]
            r = us_of(getattr(sp.Frequencies, name)(nt))
            exp = us_of(next_boundary(("freq", name), nt, nt))
            plines.append("freq %s %d" % (enc(name), t))
            what = "Frequencies.%s(%s)" % (name, nt)
        elif which == 5:
            r = us_of(Rotation.forward_day(nt))
            exp = t + DAY
            plines.append("stepd %d" % t)
            what = "forward_day(%s)" % nt
        else:
            w = rng.range(0, 6)
            try:
                with time_limit(3):
                    r = us_of(Rotation.forward_weekday(nt, w))
            except Hang:
                r = None
            exp = t + ((w - nt.weekday() - 1) % 7 + 1) * DAY
            plines.append("stepw %d %d" % (w, t))
            what = "forward_weekday(%s, %d)" % (nt, w)
        ctx.case(("step", which, t))
        ctx.stat("step_kernels")
        if r != exp:
            ctx.violation("%s = %s, expected %s" % (what, naive_of(r) if r is not None else "(never returns)", naive_of(exp)),
                          {"stream": "step", "line": plines[-1], "expected": exp})
        pexp.append(("ok %s" % r, what))
    for s in ["monday at 13:00", "w0 at 11", "sunday", "W6", "13:00", "1:02:03.5", " tuesday  AT  7 ", "w3", "12",
              "23:59:59.999999", "friday at 0:00:01"] + MALFORMED:
        try:
            r = sp.parse_daytime(s)
            if r is None:
                e = "none"
            else:
                d, t = r
                e = "ok %s %s" % ("n" if d is None else d, "n" if t is None else
                                  "%d,%d,%d,%d,n" % (t.hour, t.minute, t.second, t.microsecond))
        except Exception as ex:  # noqa
            e = "err " + canon_err(ex)
        plines.append("daytime " + enc(s))
        pexp.append((e, "parse_daytime(%r)" % s))
        ctx.case(("daytime", s))

    # ---- stream 5: Py/Calendar vs datetime.date
    step = 211 if ctx.quick else 1
    cal_lines, cal_exp = [], []
    for ordinal in range(1, 3652060, step):
        z = ordinal - 719163
        d = pydt.date.fromordinal(ordinal)
        cal_lines.append("civil %d" % z)
        first = d.replace(day=1).toordinal() - 719163
        cal_exp.append("%d %d %d %d %d %d %d" % (d.year, d.month, d.day, d.weekday(), z, first,
                                                 first + calendar.monthrange(d.year, d.month)[1]))
    ctx.exhaustive = not ctx.quick

    out = run_model(ctx, drv, lines + plines + cal_lines)
    ndis = 0
    for (rep, got), o in zip(cases, out):
        m = parse_out(o)
        ctx.traces_validated += 1
        if got[0] in ("hang", "raised"):
            continue
        if m != got:
            ndis += 1
            ctx.stat("disagreements")
            if ndis <= 3:
                ctx.broke("correspondence Rotation.fn", "spec=%r impl=%r model=%r calls=%r"
                          % (rep["spelling"], got, m, rep["calls"]))
            ctx.violation("implementation and model disagree on rotation %r: impl %s, model %s (the model is "
                          "characterised by limit_is_next_boundary / unparsable_rejected_at_add)"
                          % (rep["spelling"], got, m), dict(rep, expected=list(m), observed=list(got)),
                          kind="correspondence")
    base = len(lines)
    for (e, what), o in zip(pexp, out[base:base + len(plines)]):
        ctx.traces_validated += 1
        if e != o:
            ctx.stat("disagreements")
            ctx.broke("correspondence Rotation.parsers", "%s: impl %r, model %r" % (what, e, o))
    bad = 0
    for e, o in zip(cal_exp, out[base + len(plines):]):
        ctx.evaluations += 1
        if e != o:
            bad += 1
            if bad < 3:
                ctx.broke("correspondence Py.Calendar", "expected %s got %s" % (e, o))
    ctx.stat("calendar_days_checked(CalendarMonthFact)", len(cal_exp))

    # ---- stream 7: get_ctime / set_ctime on real files with a history (no patching)
    run_ctime_stream(ctx, drv, rng)

    # ---- stream 9: platform dispatch of the creation-time functions; histories without a persisted creation tag
    # ---- stream 8: the catch-up loop as written: step-function invocations per call    (one driver process for both)
    l9, judge9 = (lambda r: r if r else ([], lambda out: None))(run_platform_stream(ctx, drv, rng.fork("platform"), boost))
    l8, judge8 = run_steps_stream(ctx, drv, rng.fork("steps"))
    out89 = run_model(ctx, drv, l9 + l8)
    judge9(out89[:len(l9)])
    judge8(out89[len(l9):])

    # ---- stream 6: sink level – a real FileSink, frozen clock, observable = messages per file
    run_sink_stream(ctx, drv, rng, boost)
    dedup_broken(ctx)


def run_model(ctx, drv, lines):
    """the model's answers, or [] when the driver does not build against this tree (a broken tie: recorded, and the
    remaining streams still judge the implementation with their direct oracles)"""
    if not lines:
        return []
    try:
        return drv.run(lines)
    except core.DriverError as e:
        ctx.broke("driver:" + DRIVER, str(e))
        return []


def dedup_broken(ctx):
    seen, uniq = set(), []
    for b in ctx.broken:
        if b["name"] not in seen:
            seen.add(b["name"])
            uniq.append(b)
    ctx.broken[:] = uniq


def run_ctime_stream(ctx, drv, rng):
    """loguru._ctime_functions.get_ctime / set_ctime on scratch files aged with os.utime, with and without the
    persisted attribute, chmod'ed / moved afterwards: the value must be the persisted creation time, else the
    modification time (oracle), and must agree with the model `Rotation.getCtime`."""
    import loguru._ctime_functions as cf
    import loguru._file_sink as fs
    if os.name == "nt" or hasattr(os.stat_result, "st_birthtime"):
        ctx.note("creation-time stream skipped: not a Linux-like platform")
        return
    plat = "l" if hasattr(os, "getxattr") and hasattr(os, "setxattr") else "f"
    d = tempfile.mkdtemp(prefix="verif-ctime-")
    lines, exp = [], []
    try:
        for i in range(ctx.n(300, 6000)):
            path = os.path.join(d, "f%d.log" % i)
            with open(path, "wb") as fh:
                fh.write(b"x")
            m_us = gen_creation(rng)
            planted = rng.chance(40) and xattr_supported()
            aging = {"mtime_us": m_us, "atime_us": m_us + rng.range(-10**9, 10**9),
                     "xattr_us": (m_us + rng.choice([1, -1]) * rng.range(1, 10**12)) if planted else None,
                     "touch": rng.choice([None, "chmod"])}
            age_file(path, aging)
            want = expected_creation(path, aging)
            st = os.stat(path)
            rep = {"stream": "ctime", "aging": aging, "expected": want}
            ctx.case(("ctime", i, m_us, planted), nontrivial=True)
            ctx.stat("ctime:" + ("xattr" if planted else "mtime") + ("+chmod" if aging["touch"] else ""))
            for name, fn in (("_ctime_functions.get_ctime", cf.get_ctime), ("_file_sink.get_ctime", fs.get_ctime)):
                got = us_of(pydt.datetime.fromtimestamp(fn(path), tz=pydt.timezone.utc))
                if got != want:
                    ctx.violation("%s of an existing file (mtime %s, inode change %s, %s) is %s, its creation time is %s"
                                  % (name, naive_of(st.st_mtime_ns // 1000), naive_of(st.st_ctime_ns // 1000),
                                     "user.loguru_crtime = %s" % naive_of(aging["xattr_us"]) if planted else "no user.loguru_crtime",
                                     naive_of(got), naive_of(want)), dict(rep, observed=got))
                    break
            gotf = want
            if not planted:
                # the pair installed where there are no extended attributes at all: modification time, nothing persisted
                try:
                    with fake_platform(False, False, False) as (gfb, sfb):
                        pass
                    sfb(path, (m_us + 5) / 1e6)
                    gotf = us_of(pydt.datetime.fromtimestamp(gfb(path), tz=pydt.timezone.utc))
                except Exception as e:  # noqa
                    ctx.broke("platform emulation", "fallback pair: %s: %s" % (type(e).__name__, e))
                if gotf != want:
                    ctx.violation("get_ctime_fallback of an existing file (mtime %s, atime %s, inode change %s) is %s, its "
                                  "creation time is taken to be its modification time %s"
                                  % (naive_of(st.st_mtime_ns // 1000), naive_of(st.st_atime_ns // 1000),
                                     naive_of(st.st_ctime_ns // 1000), naive_of(gotf), naive_of(want)),
                                  dict(rep, observed=gotf, fallback=True))
            # set_ctime then get_ctime
            ts2 = (m_us + 1) / 1e6
            cf.set_ctime(path, ts2)
            back = us_of(pydt.datetime.fromtimestamp(cf.get_ctime(path), tz=pydt.timezone.utc))
            want2 = ctime_pair(m_us + 1)[1] if xattr_supported() else want
            if back != want2:
                ctx.violation("get_ctime after set_ctime(%r) is %s, expected %s" % (ts2, back, want2),
                              dict(rep, observed=back, expected=want2, after_set=True))
            lines.append("ctime %s %s %d %d %d" % (plat if xattr_supported() else "f",
                                                   "n" if not planted else ctime_pair(aging["xattr_us"])[1],
                                                   us_of(pydt.datetime.fromtimestamp(st.st_mtime, tz=pydt.timezone.utc)),
                                                   st.st_ctime_ns // 1000, st.st_atime_ns // 1000))
            exp.append((got, back, rep))
            os.remove(path)
    finally:
        shutil.rmtree(d, ignore_errors=True)
    out = run_model(ctx, drv, lines)
    for (got, back, rep), o in zip(exp, out):
        ctx.traces_validated += 1
        if o != "ok %d %d" % (got, back):
            ctx.stat("disagreements")
            ctx.broke("correspondence Rotation.getCtime", "aging=%r impl=(%d, %d) model=%r" % (rep["aging"], got, back, o))
            ctx.violation("implementation and model disagree on the creation time of an existing file %r: impl %d / after "
                          "set %d, model %s (the model is characterised by creation_time_source / set_then_get)"
                          % (rep["aging"], got, back, o), dict(rep, observed=got), kind="correspondence")


def oracle_steps(sem, c_us, rec_off, utcs):
    """how often each call must invoke the step function, by the specification alone: once for the first limit when
    there is no time of day to start from (interval, hourly..yearly) or when the creation day's candidate is not after
    the creation instant / not on the requested weekday; then once per boundary in (latest instant seen, record]"""
    g = frame_offset(sem, rec_off)
    c = naive_of(c_us + g)
    out, tau, first = [], c, True
    for u in utcs:
        n = 0
        if first:
            first = False
            if sem[0] in ("interval", "freq"):
                n = 1
            else:
                tod = pydt.time(*((sem[1] if sem[0] == "daily" else sem[2]) or (0, 0, 0, 0)))
                cand = pydt.datetime.combine(c.date(), tod)
                if cand <= c or (sem[0] == "weekday" and cand.weekday() != sem[1]):
                    n = 1
        key = naive_of(u + g)
        t = tau
        while True:
            b = next_boundary(sem, t, c)
            if b > key:
                break
            n += 1
            t = b
        tau = max(tau, key)
        out.append(n)
    return out


def impl_steps(obj, calls, limit_s=5):
    """like impl_fn for one time condition, with the step function wrapped by a counter
    -> ("ok", [count per call]) | ("skip",) | …"""
    made = impl_make(obj)
    if made[0] == "err":
        return made
    fn = made[1]
    if not hasattr(fn, "_step_forward"):
        return ("skip",)
    inner = fn._step_forward
    n = {"k": 0}

    def counting(t):
        n["k"] += 1
        return inner(t)

    fn._step_forward = counting
    f = StubFile("/nonexistent/verif-c07.log")
    cur = {"ct": 0.0}
    out = []
    with patched_ctime(lambda path: cur["ct"]):
        try:
            with time_limit(limit_s):
                for ct, utc, off, text, tell in calls:
                    cur["ct"] = ct
                    n["k"] = 0
                    fn(make_message(text, utc, off), f)
                    out.append(n["k"])
        except Hang:
            HANGS["n"] += 1
            return ("hang", len(out))
        except Exception as e:  # noqa
            return ("raised", canon_err(e), len(out))
    return ("ok", out)


def run_steps_stream(ctx, drv, rng):
    """the catch-up loop as written: the number of `_step_forward` invocations per call (first limit + loop
    iterations), counted on the implementation by wrapping the step function, against the count the boundaries
    themselves demand (oracle) and against the model's `timeRunSteps` (driver op `steps`).  The count is not part of
    the property; a difference is a broken tie of `catch_up_loop_as_written` / `catch_up_interval_cost`, not a violation."""
    lines, exp = [], []
    for i in range(ctx.n(700, 20000)):
        if HANGS["n"] >= 8:
            break
        meaning = gen_meaning(rng)
        sem = normal(meaning)
        obj, token, how = render(rng, meaning)
        off = rng.choice(OFFSETS)
        c_us = gen_creation(rng) - off
        ts, eff = ctime_pair(c_us)
        stamps = gen_stamps(rng, sem, eff, off, rng.range(1, 6))
        got = impl_steps(obj, [(ts, u, off, "m", 0) for u in stamps])
        want = oracle_steps(sem, eff, off, stamps)
        ctx.case(("steps", token, eff, off, tuple(stamps)), nontrivial=(max(want) > 1))
        ctx.stat("step_counts")
        ctx.stat("step_count_max", max(want))
        if got[0] != "ok":
            continue        # judged by the function-level stream
        if got[1] != want:
            ctx.broke("correspondence Rotation.catchUpIters (implementation vs boundaries)",
                      "rotation %r creation %d offset %d stamps %r: step function invoked %r times, the boundaries "
                      "demand %r" % (obj if isinstance(obj, str) else repr(obj), eff, off, stamps, got[1], want))
        lines.append("steps %s %s" % (token, " ".join("%d,%d,%d,1,1,0" % (eff, u, off) for u in stamps)))
        exp.append((repr(obj), got[1]))
    def judge(out):
        for (what, got), o in zip(exp, out):
            ctx.traces_validated += 1
            if o != "ok " + ",".join(str(k) for k in got):
                ctx.stat("disagreements")
                ctx.broke("correspondence Rotation.timeRunSteps", "rotation %s: impl %r, model %r" % (what, got, o))
    return lines, judge


class fake_platform:
    """run `loguru._ctime_functions.load_ctime_functions()` as if on a platform with the given features: the module's
    global `os` is replaced by a stand-in that has (or lacks) `name == "nt"`, `stat_result.st_birthtime`,
    `getxattr`/`setxattr`; `win32_setctime` is a stub.  -> (get_ctime, set_ctime) of that platform"""

    def __init__(self, is_nt, has_birthtime, has_xattr, birth=None):
        self.is_nt, self.has_birthtime, self.has_xattr, self.birth = is_nt, has_birthtime, has_xattr, birth or {}

    def __enter__(self):
        import sys
        import loguru._ctime_functions as cf
        self.cf, self.old_os = cf, cf.os
        birth = self.birth

        class StatResultWithBirth:
            st_birthtime = 0.0

        def stat(path, *a, **k):
            r = os.stat(path, *a, **k)
            if not self.has_birthtime:
                return r
            return types.SimpleNamespace(st_mtime=r.st_mtime, st_ctime=r.st_ctime, st_atime=r.st_atime,
                                         st_birthtime=birth.get(os.path.realpath(path), r.st_mtime))

        fake = types.SimpleNamespace(name="nt" if self.is_nt else "posix", stat=stat, path=os.path,
                                     stat_result=StatResultWithBirth if self.has_birthtime else os.stat_result)
        if self.has_xattr:
            fake.getxattr, fake.setxattr = os.getxattr, os.setxattr
        self.old_win = sys.modules.get("win32_setctime")
        sys.modules["win32_setctime"] = types.SimpleNamespace(SUPPORTED=False, setctime=lambda p, t: None)
        cf.os = fake
        try:
            return cf.load_ctime_functions()
        except BaseException:
            self.__exit__()
            raise

    def __exit__(self, *a):
        import sys
        self.cf.os = self.old_os
        if self.old_win is None:
            sys.modules.pop("win32_setctime", None)
        else:
            sys.modules["win32_setctime"] = self.old_win
        return False


def run_platform_stream(ctx, drv, rng, boost):
    """(a) which pair of creation-time functions `load_ctime_functions` installs for each of the eight feature
    combinations (oracle: Windows, else birth time, else extended attributes, else st_mtime; model: `platformOf` over
    the regenerated dispatch); (b) sink histories with restarts where the creation tag CANNOT be persisted (the
    fallback pair): after a restart the boundaries are counted from the modification time of the file in use – the
    documented fallback – judged by an oracle of its own and compared with `Sink.runOpsOn false`."""
    if not (hasattr(os, "getxattr") and hasattr(os, "setxattr")):
        ctx.note("platform stream skipped: this interpreter has no os.getxattr")
        return
    lines, exp = [], []
    try:
        with fake_platform(False, False, False) as probe:
            pass
    except Exception as e:  # noqa – the stand-in of `os` does not offer what load_ctime_functions now asks for
        ctx.broke("platform emulation", "load_ctime_functions cannot be run under the stand-in of os: %s: %s"
                  % (type(e).__name__, e))
        return None
    for is_nt in (False, True):
        for hb in (False, True):
            for hx in (False, True):
                try:
                    with fake_platform(is_nt, hb, hx) as (g, s_):
                        got = g.__name__[len("get_ctime_"):] if g.__name__.startswith("get_ctime_") else g.__name__
                        paired = s_.__name__ == "set_ctime_" + got
                except Exception as e:  # noqa
                    ctx.broke("platform emulation", "features %r: %s: %s" % ((is_nt, hb, hx), type(e).__name__, e))
                    continue
                want = "windows" if is_nt else "macos" if hb else "linux" if hx else "fallback"
                ctx.case(("platform", is_nt, hb, hx), nontrivial=True)
                ctx.stat("platform_dispatch")
                # a POSIX platform offering BOTH a birth time and the xattr functions does not exist today: which of the
                # two sources wins there is not judged (the model follows the regenerated order either way)
                judged = is_nt or not (hb and hx)
                if judged and (got != want or not paired):
                    ctx.violation("load_ctime_functions on a platform with os.name%s'nt', %s st_birthtime, %s xattr functions "
                                  "installs %s / %s; the creation time must come from %s"
                                  % ("==" if is_nt else "!=", "with" if hb else "without", "with" if hx else "without",
                                     g.__name__, s_.__name__, want),
                                  {"stream": "platform", "features": [is_nt, hb, hx], "observed": got, "expected": want})
                lines.append("plat %d %d %d" % (is_nt, hb, hx))
                exp.append((got, "dispatch (%s, %s, %s)" % (is_nt, hb, hx)))
    # (b) histories without a persisted creation time
    import loguru._file_sink as fs
    n = ctx.n(100, 2500) * boost
    slines, sexp = [], []
    for i in range(n):
        if HANGS["n"] >= 8:
            break
        meaning = gen_meaning(rng)
        sem = normal(meaning)
        obj, token, how = render(rng, meaning)
        off = rng.choice(OFFSETS)
        eff = ctime_pair(gen_creation(rng) - off)[1]
        stamps = gen_stamps(rng, sem, eff, off, rng.range(2, 7))
        ops = list(stamps)
        for _ in range(rng.choice([1, 1, 2])):
            ops.insert(rng.range(0, len(ops)), None)
        texts = ["<%d>%s\n" % (k, "x" * rng.below(5)) for k in range(len(stamps))]
        got = impl_sink_untagged(obj, eff, ops, off, texts)
        # oracle: like oracle_history, but a restarted sink counts from the last record written (the modification time)
        g = frame_offset(sem, off)
        creation, limit, anchor, bits = eff, None, None, []
        for u in ops:
            if u is None:
                limit = None
                continue
            if limit is None:
                anchor = naive_of(creation + g)
                limit = next_boundary(sem, anchor, anchor)
            key = naive_of(u + g)
            if key >= limit:
                bits.append(True)
                limit = next_boundary(sem, key, anchor)
            else:
                bits.append(False)
            creation = u                   # the modification time moves with every record
        want = show_files(files_from_bits(bits))
        ctx.case(("untagged", token, eff, off, tuple(ops)), nontrivial=(any(bits) and not all(bits)))
        ctx.stat("sink_without_creation_tag")
        rep = {"stream": "untagged", "token": token, "spelling": obj if isinstance(obj, str) else repr(obj), "ctime": eff,
               "offset": off, "ops": ops, "expected": want}
        if got[0] != "ok":
            ctx.violation("file sink with rotation %r on a file system without creation tags: %s" % (rep["spelling"], got),
                          dict(rep, observed=list(got)))
            continue
        if got[1] != want:
            ctx.violation("file sink with rotation %r where the creation time cannot be persisted (fallback: st_mtime), "
                          "creation %d, offset %d: messages per file %s, counted from the modification time they are %s"
                          % (rep["spelling"], eff, off, got[1], want), dict(rep, observed=got[1]))
        it = iter(texts)
        msgs = " ".join("R" if u is None else (lambda t: "%d,%d,%d,%d" % (u, off, len(t.encode()), len(t)))(next(it))
                        for u in ops)
        slines.append("sinku %s %d %d %s" % (token, eff, len(b"old line\n"), msgs))
        sexp.append((rep, got[1]))
    def judge(out):
        for (got, what), o in zip(exp, out):
            ctx.traces_validated += 1
            if o != got:
                ctx.stat("disagreements")
                ctx.broke("correspondence Rotation.platformOf", "%s: impl %r, model %r" % (what, got, o))
        for (rep, obs), o in zip(sexp, out[len(lines):]):
            ctx.traces_validated += 1
            if parse_out(o) != ("ok", obs):
                ctx.stat("disagreements")
                ctx.broke("correspondence Rotation.sink (no creation tag)", "spec=%r impl=%r model=%r ops=%r"
                          % (rep["spelling"], obs, o, rep["ops"]))
    return lines + slines, judge


def impl_sink_untagged(obj, ctime_us, ops, off, texts, limit_s=5):
    """a real FileSink on an existing file, with the FALLBACK creation-time functions of loguru installed
    (`get_ctime` = st_mtime, `set_ctime` a no-op) and a clock emulated on the file system: after every record the
    modification time of the log file is set to the (frozen) instant of that record.  ops: UTC instants, None = restart.
    -> ("ok", "i,j|k|…") | ("err", kind) | ("hang", i) | ("raised", kind, i) | ("undecomposable",)"""
    import loguru._file_sink as fs
    d = tempfile.mkdtemp(prefix="verif-rot-")
    clock = FrozenClock()
    old_dt = fs.datetime
    pre = b"old line\n"
    try:
        path = os.path.join(d, "app.log")
        with open(path, "wb") as fh:
            fh.write(pre)
        # (the access time is kept apart from the modification time: reads, backups, `noatime` mounts move it freely)
        os.utime(path, ns=((ctime_us + 7654321) * 1000, ctime_us * 1000))
        with fake_platform(False, False, False) as (g, s_):
            pass
        with patched_ctime(g, s_):
            fs.datetime = clock.module
            try:
                try:
                    sink = fs.FileSink(path, rotation=obj)
                except Exception as e:  # noqa
                    return ("err", canon_err(e))
                i = 0
                it = iter(texts)
                try:
                    with time_limit(limit_s):
                        for i, u in enumerate(ops):
                            if u is None:
                                sink.stop()
                                sink = fs.FileSink(path, rotation=obj)
                                continue
                            clock.now_us = u
                            sink.write(make_message(next(it), u, off))
                            os.utime(path, ns=((u - 3600 * 10**6) * 1000, u * 1000))
                except Hang:
                    HANGS["n"] += 1
                    return ("hang", i)
                except Exception as e:  # noqa
                    return ("raised", canon_err(e), i)
                finally:
                    try:
                        sink.stop()
                    except Exception:  # noqa
                        pass
            finally:
                fs.datetime = old_dt
        files = []
        for name in os.listdir(d):
            with open(os.path.join(d, name), "rb") as fh:
                files.append((name, fh.read()))
        part = partition_of(files, texts, "utf8", pre)
        if part is None:
            return ("undecomposable",)
        seen = [p[0] for p in part]
        return ("ok", show_files([f for j, f in enumerate(seen) if f or j == 0] or [[]]))
    finally:
        shutil.rmtree(d, ignore_errors=True)


def files_from_bits(bits):
    files, cur = [], []
    for i, b in enumerate(bits):
        if b:
            files.append(cur)
            cur = []
        cur.append(i)
    files.append(cur)
    return files


def show_files(files):
    return "|".join(",".join(str(i) for i in f) for f in files)


def run_sink_stream(ctx, drv, rng, boost):
    n = ctx.n(400, 4000) * boost
    lines, expect = [], []
    for i in range(n):
        if HANGS["n"] >= 8:
            break
        meaning = gen_meaning(rng)
        sem = normal(meaning)
        obj, token, how = render(rng, meaning)
        off = rng.choice(OFFSETS)
        c_us = gen_creation(rng) - off
        ts, eff = ctime_pair(c_us)
        restart = rng.chance(55)
        aging = None
        if restart and rng.chance(55):
            # the creation time comes from the file system itself: aged file, loguru's own get_ctime/set_ctime
            planted = rng.chance(45) and xattr_supported()
            skew = rng.choice([1, 60, 3600, 86400, 40 * 86400]) * 10**6 * rng.choice([1, -1])
            aging = {"mtime_us": eff + skew if planted else eff, "atime_us": eff + rng.range(0, 10**9),
                     "xattr_us": eff if planted else None, "touch": rng.choice([None, "chmod"])}
        stamps = gen_stamps(rng, sem, eff, off, rng.range(2, 8))
        texts = ["<%d>%s\n" % (k, "x" * rng.below(5)) for k in range(len(stamps))]
        pre = b"old line\n" if restart else None
        # the sink may be removed and added again in the middle of the history (real creation-time functions: only
        # where the file system can persist the creation time, otherwise the clause cannot be met by design)
        ops = list(stamps)
        if rng.chance(45) and (aging is None or xattr_supported()):
            for _ in range(rng.choice([1, 1, 2])):
                ops.insert(rng.range(0, len(ops)), None)
            ctx.stat("sink_history_with_restarts")
        it = iter(texts)
        got = impl_sink(obj, ts, pre, [None if u is None else (u, off, next(it)) for u in ops], aging=aging)
        if aging is not None:
            ctx.stat("sink_real_ctime:" + ("xattr" if aging["xattr_us"] is not None else "mtime") +
                     ("+chmod" if aging["touch"] else ""))
            if aging.get("expected_us") != eff:
                raise RuntimeError("aging a scratch file did not plant the instant asked for: %r vs %d" % (aging, eff))
        bits = oracle_history(sem, eff, off, ops)
        exp_files = files_from_bits(bits)
        ctx.case(("sink", token, eff, off, tuple(ops)), nontrivial=(any(bits) and not all(bits)))
        ctx.stat("sink_level")
        ctx.stat("sink_restart_on_existing_file" if restart else "sink_fresh_file")
        rep = {"stream": "sink", "token": token, "spelling": obj if isinstance(obj, str) else repr(obj),
               "ctime": eff, "offset": off, "stamps": stamps, "ops": ops, "restart": restart,
               "expected": show_files(exp_files),
               "aging": ({k: v for k, v in aging.items() if k != "expected_us"} if aging else None)}
        if got[0] != "ok":
            ctx.violation("file sink with rotation %r: %s" % (rep["spelling"], got), dict(rep, observed=list(got)))
            continue
        part = partition_of(got[1], texts, "utf8", pre)
        if part is None:
            ctx.violation("file sink with rotation %r: log files do not decompose into the written messages"
                          % rep["spelling"], rep)
            continue
        seen = [p[0] for p in part]
        # the oldest file may be left holding only the pre-existing content
        norm = [f for j, f in enumerate(seen) if f or j == 0]
        obs = show_files(norm if norm else [[]])
        exp = show_files(exp_files)
        if obs != exp:
            ctx.violation("file sink with rotation %r (creation %d%s, offset %d): messages per file %s, the boundaries "
                          "denote %s" % (rep["spelling"], eff,
                                         "" if aging is None else " = %s of an existing file%s" % (
                                             "user.loguru_crtime" if aging["xattr_us"] is not None else "mtime",
                                             ", chmod'ed since" if aging["touch"] else ""),
                                         off, obs, exp), dict(rep, observed=obs))
        it = iter(texts)
        msgs = " ".join("R" if u is None else (lambda t: "%d,%d,%d,%d" % (u, off, len(t.encode()), len(t)))(next(it))
                        for u in ops)
        lines.append("sink %s %d %d %s" % (token, eff, len(pre or b""), msgs))
        expect.append((rep, obs))
    out = run_model(ctx, drv, lines)
    for (rep, obs), o in zip(expect, out):
        ctx.traces_validated += 1
        m = parse_out(o)
        if m != ("ok", obs):
            ctx.stat("disagreements")
            ctx.broke("correspondence Rotation.sink", "spec=%r impl=%r model=%r" % (rep["spelling"], obs, m))
            ctx.violation("implementation and model disagree on the files of rotation %r: impl %s, model %s"
                          % (rep["spelling"], obs, m), dict(rep, observed=obs, expected=list(m)), kind="correspondence")


def replay(ctx, rep):
    r = rep["replay"]
    stream = r.get("stream")
    if stream == "fn":
        obj = object_of_token(r["token"])
        calls = [(ctime_pair(c[0])[0], c[1], c[2], c[3], c[4]) for c in r["calls"]]
        got = impl_fn(obj, calls)
        eff = [(c[0], c[1], c[2], len(c[3].encode("utf8")), len(c[3]), c[4]) for c in r["calls"]]
        try:
            m = parse_out(core.Driver(DRIVER).run([fn_line(r["token"], eff)])[0])
        except core.DriverError:
            m = ("unavailable", "the model driver does not build against this tree")
        exp = r.get("expected")
        print("rotation=%r calls=%r" % (r.get("spelling"), r["calls"]))
        print("implementation:", got)
        print("model:         ", m)
        print("expected:      ", exp)
        if exp and exp[1] == "any":
            bad = got[0] != "err"
        elif exp:
            bad = list(got) != list(exp)
        else:
            bad = got != m and m[0] != "unavailable"
    elif stream == "sink":
        obj = object_of_token(r["token"])
        texts = ["<%d>\n" % k for k in range(len(r["stamps"]))]
        pre = b"old line\n" if r.get("restart") else None
        it = iter(texts)
        got = impl_sink(obj, ctime_pair(r["ctime"])[0], pre,
                        [None if u is None else (u, r["offset"], next(it)) for u in r.get("ops", r["stamps"])],
                        aging=dict(r["aging"]) if r.get("aging") else None)
        obs = None
        if got[0] == "ok":
            part = partition_of(got[1], texts, "utf8", pre)
            if part is not None:
                seen = [p[0] for p in part]
                obs = show_files([f for j, f in enumerate(seen) if f or j == 0] or [[]])
        print("rotation=%r history (None = sink removed and added again)=%r aging=%r"
              % (r.get("spelling"), r.get("ops", r["stamps"]), r.get("aging")))
        print("implementation:", obs if obs is not None else got)
        print("expected:      ", r.get("expected"))
        bad = obs != r.get("expected")
    elif stream == "ctime":
        import loguru._ctime_functions as cf
        d = tempfile.mkdtemp(prefix="verif-ctime-")
        try:
            path = os.path.join(d, "f.log")
            with open(path, "wb") as fh:
                fh.write(b"x")
            age_file(path, r["aging"])
            want = expected_creation(path, r["aging"])
            if r.get("after_set"):
                cf.set_ctime(path, (r["aging"]["mtime_us"] + 1) / 1e6)
                want = r["expected"]
            getter = cf.get_ctime
            if r.get("fallback"):
                with fake_platform(False, False, False) as (getter, _):
                    pass
            got = us_of(pydt.datetime.fromtimestamp(getter(path), tz=pydt.timezone.utc))
            st = os.stat(path)
            print("file aged as %r: mtime=%s inode-change=%s" % (r["aging"], st.st_mtime, st.st_ctime))
            print("get_ctime -> %s, creation time of the file: %s" % (naive_of(got), naive_of(want)))
            bad = got != want
        finally:
            shutil.rmtree(d, ignore_errors=True)
    elif stream == "untagged":
        obj = object_of_token(r["token"])
        n = sum(1 for u in r["ops"] if u is not None)
        got = impl_sink_untagged(obj, r["ctime"], r["ops"], r["offset"], ["<%d>\n" % k for k in range(n)])
        print("rotation=%r history (None = sink removed and added again)=%r, creation time not persistable" % (r.get("spelling"), r["ops"]))
        print("implementation:", got)
        print("expected:      ", r.get("expected"))
        bad = got != ("ok", r.get("expected"))
    elif stream == "platform":
        is_nt, hb, hx = r["features"]
        with fake_platform(is_nt, hb, hx) as (g, s_):
            got = g.__name__[len("get_ctime_"):]
        print("features (nt, st_birthtime, xattr) = %r: installed %s, expected %s" % (r["features"], got, r["expected"]))
        bad = got != r["expected"]
    elif stream == "dur":
        from loguru import _string_parsers as sp
        try:
            v = sp.parse_duration(r["text"])
            e = "none" if v is None else "ok %d" % (v // US)
        except Exception as ex:  # noqa
            e = "err " + canon_err(ex)
        print("parse_duration(%r) = %s, expected %s" % (r["text"], e, r["expected"]))
        bad = e != r["expected"]
    elif stream == "step":
        from loguru import _string_parsers as sp
        from loguru._file_sink import Rotation
        p = r["line"].split(" ")
        if p[0] == "freq":
            v = us_of(getattr(sp.Frequencies, core.dec(p[1]))(naive_of(int(p[2]))))
        elif p[0] == "stepd":
            v = us_of(Rotation.forward_day(naive_of(int(p[1]))))
        else:
            try:
                with time_limit(3):
                    v = us_of(Rotation.forward_weekday(naive_of(int(p[2])), int(p[1])))
            except Hang:
                v = None
        print("%s -> %s, expected %s" % (r["line"], v, r["expected"]))
        bad = v != r["expected"]
    else:
        print("unknown replay stream", stream)
        return 2
    print("REPRODUCED" if bad else "not reproduced")
    return 1 if bad else 0
