"""Real os.fork() storm (run as a script with PYTHONPATH=<repo>): prints one JSON line {"bad": [...], "forks": n}."""
import json
import os
import signal
import sys
import tempfile
import threading
import time


def main():
    cfg = json.loads(sys.argv[1])
    import loguru._locks_machinery as lm
    import loguru._logger as lg
    logger = lg.Logger(core=lg.Core(), exception=None, depth=0, record=False, lazy=False, colors=False, raw=False,
                       capture=True, patchers=[], extra={})
    base = cfg.get("base") or tempfile.mkdtemp(prefix="verif_c15_")
    bad = []
    stop = threading.Event()

    def slow(m):
        time.sleep(0.002)

    logger.add(os.path.join(base, "a.log"), format="{message}", enqueue=cfg["enqueue"], catch=False)
    logger.add(slow, format="{message}", enqueue=cfg["enqueue"], catch=False)
    payload = "x" * (300000 if cfg["big"] else 40)

    def worker(i):
        k = 0
        while not stop.is_set():
            k += 1
            try:
                if k % 50 == 0:
                    # short-lived handlers are never enqueue ones: a child forked between this add() and the
                    # remove() below would inherit a handler whose owner stops the worker at once, and the child's
                    # complete() would wait for ever on it (no liveness is claimed for that, see C03 "expected hang")
                    hid = logger.add(lambda m: None, format="{message}", enqueue=False)
                    logger.info("w%d-%d added" % (i, k))
                    logger.remove(hid)
                else:
                    logger.info("w%d-%d %s" % (i, k, payload))
            except Exception as e:  # noqa
                bad.append("thread %d: %s: %s" % (i, type(e).__name__, e))
                return

    ths = [threading.Thread(target=worker, args=(i,), daemon=True) for i in range(cfg["threads"])]
    for t in ths:
        t.start()
    forks = 0
    t_end = time.time() + cfg["seconds"]
    while time.time() < t_end and not bad:
        pid = os.fork()
        if pid == 0:
            # ---- child: only this thread exists
            rc = 0
            try:
                signal.alarm(20)
                held = []
                for name in ("logger_locks", "handler_locks", "queue_locks"):
                    for lk in list(getattr(lm, name, ())):
                        if lk.locked():
                            held.append(name)
                if held:
                    os.write(2, ("child inherited held locks: %r\n" % held).encode())
                    rc = 3
                logger.info("child says hello")
                # the child must be able to log from ANY of its threads, not only from the one that forked: fresh
                # threads of the child tend to receive the (recycled) identities of parent threads that did not
                # survive the fork, so per-thread state of the parent that is not thread-local would be attributed
                # to them (every handler was added with catch=False: a failure reaches the thread)
                failures = []

                def child_thread(k):
                    try:
                        logger.info("child thread %d" % k)
                    except BaseException as e:  # noqa
                        failures.append("%s: %s" % (type(e).__name__, str(e)[:120]))

                kids = [threading.Thread(target=child_thread, args=(k,), daemon=True) for k in range(cfg["threads"] + 1)]
                for t in kids:
                    t.start()
                for t in kids:
                    t.join(10)
                if failures or any(t.is_alive() for t in kids):
                    os.write(2, ("child: a fresh thread could not log through the inherited handlers: %r\n"
                                 % (failures[:2] or "still blocked",)).encode())
                    rc = 5
                hid = logger.add(lambda m: None, format="{message}")
                logger.info("child again")
                logger.remove(hid)
                logger.complete()
                logger.remove()
            except BaseException as e:  # noqa
                os.write(2, ("child failed: %r\n" % (e,)).encode())
                rc = 4
            os._exit(rc)
        forks += 1
        deadline = time.time() + 30
        while True:
            wpid, status = os.waitpid(pid, os.WNOHANG)
            if wpid:
                if os.WIFSIGNALED(status):
                    bad.append("child %d killed by signal %d (watchdog = deadlock in the child)" % (forks, os.WTERMSIG(status)))
                elif os.WEXITSTATUS(status) == 5:
                    bad.append("child %d: a fresh thread of the child could not log through an inherited handler "
                               "(exit status 5)" % forks)
                elif os.WEXITSTATUS(status) != 0:
                    bad.append("child %d exit status %d" % (forks, os.WEXITSTATUS(status)))
                break
            if time.time() > deadline:
                os.kill(pid, signal.SIGKILL)
                os.waitpid(pid, 0)
                bad.append("child %d hung" % forks)
                break
            time.sleep(0.0005)
        time.sleep(0.0003)
    stop.set()
    for t in ths:
        t.join(20)
        if t.is_alive():
            bad.append("a logging thread of the parent never finished (parent deadlock)")
    done = threading.Event()

    def fin():
        logger.complete()
        logger.remove()
        done.set()
    threading.Thread(target=fin, daemon=True).start()
    if not done.wait(60):
        bad.append("parent could not complete()/remove() after the storm")
    import shutil
    shutil.rmtree(base, ignore_errors=True)
    print(json.dumps({"bad": bad, "forks": forks}))
    sys.stdout.flush()
    os._exit(0)


main()
